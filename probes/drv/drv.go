// Package drv is the consumer driver shared by all variants of a program: it
// writes its own call/return events into the same trace as the generator side.
package drv

import (
	"fmt"
	"runtime"

	"scratch/tr"
)

// It is the part of the iterator interface every variant offers.
type It[V any] interface {
	MoveNext() bool
	Current() V
}

// History of the standard consumer.
var (
	K        = -1 // number of advances; -1 = drain (bounded by MaxMoves)
	MaxMoves = 12
	After    = 2 // advances after exhaustion
	// NoExtraCur suppresses the occasional second Current() call (multiset comparison of
	// programs whose order is legitimately random: which value is read twice would differ)
	NoExtraCur = false
)

var live []interface{ Stop() }

// Track registers reference iterators for unwinding after the run.
func Track(x any) {
	if s, ok := x.(interface{ Stop() }); ok {
		live = append(live, s)
	}
}

// Cleanup unwinds suspended reference coroutines (muted).
func Cleanup() {
	tr.Mute()
	for _, s := range live {
		func() {
			defer func() { recover() }()
			s.Stop()
		}()
	}
	live = live[:0]
}

func showPanic(p any) string {
	if e, ok := p.(runtime.Error); ok {
		return "rt(" + e.Error() + ")"
	}
	if e, ok := p.(error); ok {
		return "err(" + e.Error() + ")"
	}
	return tr.Show(p)
}

// Move advances once; a panic is attributed to this call. A panic is detected by the call not
// returning (not by recover() != nil), so that panic(nil) under GODEBUG=panicnil=1 is seen too.
func Move[V any](it It[V]) (ok bool, panicked bool) {
	tr.Log("M>")
	returned := false
	defer func() {
		p := recover()
		if returned {
			return
		}
		if _, b := p.(tr.BudgetExceeded); b {
			panic(p)
		}
		panicked = true
		ok = false
		if p == nil {
			tr.Log("M<panic:nil-value")
		} else {
			tr.Log("M<panic:" + showPanic(p))
		}
	}()
	ok = it.MoveNext()
	returned = true
	if ok {
		tr.Log("M<true")
	} else {
		tr.Log("M<false")
	}
	return
}

// Cur reads Current.
func Cur[V any](it It[V]) V {
	v := it.Current()
	tr.Log("C=" + tr.Show(v))
	return v
}

// Run is the standard consumer history.
func Run[V any](mk func() It[V]) {
	tr.Log("new>")
	it := mk()
	Track(it)
	tr.Log("new<")
	Cur(it)
	n := 0
	for K < 0 || n < K {
		if n >= MaxMoves {
			break
		}
		ok, panicked := Move(it)
		n++
		if panicked {
			tr.Log("stop")
			return
		}
		Cur(it)
		if n%3 == 2 && !NoExtraCur {
			Cur(it)
		}
		if !ok {
			for j := 0; j < After; j++ {
				ok2, p2 := Move(it)
				if p2 {
					break
				}
				Cur(it)
				if ok2 {
					tr.Log("RESURRECTED")
				}
			}
			break
		}
	}
	tr.Log("stop")
}

// Sprint helps consumer programs log values.
func Sprint(xs ...any) string { return fmt.Sprint(xs...) }
