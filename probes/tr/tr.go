// Package tr is the shared observable of the diff-trace engine (E1): an event
// log written by generator-side probes and by the consumer driver, a decision
// tape that steers every branch, and an event budget that cuts all variants of
// a program at the same logical point. No wall-clock value takes part.
package tr

import (
	"fmt"
	"strconv"
)

// BudgetExceeded is the sentinel panic raised when the event budget is used up.
type BudgetExceeded struct{}

var (
	ev       []string
	tape     []bool
	pos      int // tape reads so far (also beyond the supplied tape)
	maxTape  int
	budget   int
	muted    bool
	exceeded bool
	occ      int
)

// Reset starts a run.
func Reset(t []bool, maxBits, eventBudget int) {
	ev = ev[:0]
	tape = t
	pos = 0
	maxTape = maxBits
	budget = eventBudget
	muted = false
	exceeded = false
	occ = 0
}

// Mute stops logging (used while a reference coroutine is unwound after the run).
func Mute() { muted = true }

// Events returns a copy of the log.
func Events() []string { return append([]string(nil), ev...) }

// Len is the current log length.
func Len() int { return len(ev) }

// Consumed is the number of tape bits the run asked for (<= maxTape).
func Consumed() int { return pos }

// Exceeded reports whether the budget sentinel fired in this run.
func Exceeded() bool { return exceeded }

// Log appends an event and charges the budget.
func Log(s string) {
	if muted {
		return
	}
	ev = append(ev, s)
	budget--
	if budget <= 0 {
		exceeded = true
		muted = true
		panic(BudgetExceeded{})
	}
}

// E is a statement effect.
func E(id int) { Log("e" + strconv.Itoa(id)) }

// V logs "expression id evaluated to x" and returns x.
func V[T any](id int, x T) T {
	Log("v" + strconv.Itoa(id) + "=" + Show(x))
	return x
}

// W is a one-argument effectful call: logs w<x> and returns a per-run unique value.
func W(x int) int {
	Log("w" + strconv.Itoa(x))
	return x*1000 + Occ()
}

// Boom is a one-argument call that panics when the decision tape says so.
func Boom(x int) int {
	if B(x) {
		panic("boom" + strconv.Itoa(x))
	}
	return x*1000 + Occ()
}

// X logs "expression id evaluated" without its value (values whose rendering is not
// stable across runs: channels, maps, pointers).
func X[T any](id int, x T) T {
	Log("x" + strconv.Itoa(id))
	return x
}

// R logs a variable read.
func R[T any](id int, x T) T {
	Log("r" + strconv.Itoa(id) + "=" + Show(x))
	return x
}

// B is the next bit of the decision tape (false once the tape or the bit bound is exhausted).
func B(id int) bool {
	b := false
	if pos < maxTape {
		if pos < len(tape) {
			b = tape[pos]
		}
		pos++
	}
	if b {
		Log("b" + strconv.Itoa(id) + "=1")
	} else {
		Log("b" + strconv.Itoa(id) + "=0")
	}
	return b
}

// N is a small tape-driven number in [0,n): reads ceil(log2 n) bits and always logs the result.
func N(id int, n int) int {
	v := 0
	for m := 1; m < n; m *= 2 {
		v *= 2
		if B(id) {
			v++
		}
	}
	if n > 0 {
		v %= n
	}
	Log("n" + strconv.Itoa(id) + "=" + strconv.Itoa(v))
	return v
}

// Occ is a per-run occurrence counter: makes every dynamically yielded value unique.
func Occ() int {
	occ++
	return occ
}

// Any returns a tape-chosen value of one of several dynamic types (type switches).
func Any(id int, n int) any {
	switch N(id, n) {
	case 0:
		return 7
	case 1:
		return "s"
	case 2:
		return true
	}
	return nil
}

// Zero is a silent runtime zero (divisions and index expressions that panic at run time).
func Zero() int { return len(ev) - len(ev) }

// False is a silent runtime false (keeps a statically present yield unreachable).
func False() bool { return len(ev) < 0 }

// U "uses" values (keeps generated sources free of unused-variable errors).
func U(xs ...any) {}

// Show renders a value deterministically.
func Show(x any) string {
	switch v := x.(type) {
	case nil:
		return "nil"
	case int:
		return strconv.Itoa(v)
	case string:
		return strconv.Quote(v)
	case rune:
		return "r" + strconv.Itoa(int(v))
	case bool:
		if v {
			return "true"
		}
		return "false"
	case error:
		return "err(" + v.Error() + ")"
	case fmt.Stringer:
		return v.String()
	}
	return fmt.Sprintf("%v", x)
}
