// Package plib is the tiny result-reporting library shared by the in-process
// probes (copied into the scratch module on every run).
package plib

import (
	"encoding/json"
	"flag"
	"fmt"
	"os"
	"sort"
)

type Violation struct {
	Case   string `json:"case"`
	Sig    string `json:"sig"`
	What   string `json:"what"`
	Replay any    `json:"replay"`
}

type Result struct {
	Evaluations  int            `json:"evaluations"`
	Distinct     int            `json:"distinct"`
	Rule         string         `json:"rule"`
	Exhaustive   bool           `json:"exhaustive"`
	Samples      []any          `json:"samples"`
	Counters     map[string]int `json:"counters"`
	Extra        map[string]any `json:"extra"`
	Violations   []Violation    `json:"violations"`
	Inconclusive []string       `json:"inconclusive"`
	Assumptions  []string       `json:"assumptions"`

	distinct map[string]struct{}
}

var (
	Tier = "quick"
	Seed int64
	Out  string
	Only string
)

// Flags parses the common probe flags.
func Flags() {
	flag.StringVar(&Tier, "tier", "quick", "quick|thorough")
	flag.Int64Var(&Seed, "seed", 1, "PRNG seed")
	flag.StringVar(&Out, "out", "", "result file")
	flag.StringVar(&Only, "only", "", "replay only this case id")
	flag.Parse()
}

func Thorough() bool { return Tier == "thorough" }

func New() *Result {
	return &Result{Counters: map[string]int{}, Extra: map[string]any{}, distinct: map[string]struct{}{}}
}

func (r *Result) Eval(n int)               { r.Evaluations += n }
func (r *Result) DistinctKey(k string)     { r.distinct[k] = struct{}{} }
func (r *Result) DistinctN(n int)          { r.Distinct += n }
func (r *Result) Count(name string, n int) { r.Counters[name] += n }
func (r *Result) Sample(s any) {
	if len(r.Samples) < 6 {
		r.Samples = append(r.Samples, s)
	}
}
func (r *Result) Violate(c, sig, what string, replay any) {
	same := 0
	for _, v := range r.Violations {
		if v.Case == c && v.Sig == sig {
			return
		}
		if v.Sig == sig {
			same++
		}
	}
	if same >= 4 || len(r.Violations) >= 40 {
		r.Counters["violations_not_listed"]++
		return
	}
	r.Violations = append(r.Violations, Violation{c, sig, what, replay})
}
func (r *Result) Inconc(what string) { r.Inconclusive = append(r.Inconclusive, what) }

// Write emits the result file.
func (r *Result) Write() {
	r.Distinct += len(r.distinct)
	sort.Slice(r.Violations, func(i, j int) bool { return r.Violations[i].Case < r.Violations[j].Case })
	bs, err := json.Marshal(r)
	if err != nil {
		fmt.Fprintln(os.Stderr, "plib: marshal:", err)
		os.Exit(2)
	}
	if Out == "" {
		os.Stdout.Write(bs)
		return
	}
	if err := os.WriteFile(Out, bs, 0o644); err != nil {
		fmt.Fprintln(os.Stderr, "plib:", err)
		os.Exit(2)
	}
}
