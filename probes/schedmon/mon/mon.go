// Package mon holds the per-iterator event log of the C14 workload. A Log is
// owned by exactly one iterator instance (and one goroutine), so the monitor
// itself shares nothing.
package mon

import "strconv"

type Log struct{ Ev []string }

func (l *Log) E(id int) { l.Ev = append(l.Ev, "e"+strconv.Itoa(id)) }
func (l *Log) V(id, v int) int {
	l.Ev = append(l.Ev, "v"+strconv.Itoa(id)+"="+strconv.Itoa(v))
	return v
}

type Tree struct {
	L, R *Tree
	V    int
}

// MkTree builds a balanced tree with values lo..hi-1 (in-order).
func MkTree(lo, hi int) *Tree {
	if lo >= hi {
		return nil
	}
	mid := (lo + hi) / 2
	return &Tree{L: MkTree(lo, mid), V: mid, R: MkTree(mid+1, hi)}
}
