// Probe for C14: (a) every interleaving of advances among k live iterators,
// (b) goroutine-parallel consumption under the race detector. Oracle: each
// iterator's own value/effect sequence equals the one it produces alone.
package main

import (
	"flag"
	"fmt"
	"math/rand"
	"reflect"
	"runtime"
	"sort"
	"strings"
	"sync"
	"sync/atomic"

	"github.com/goghcrow/go-co/seq"
	"scratch/plib"
	"scratch/schedmon/mon"
	gens "scratch/schedmon/out/gens"
)

type it interface {
	MoveNext() bool
	Current() int
}

type kind struct {
	name string
	mk   func(l *mon.Log) it
}

func rawTerm(l *mon.Log) it {
	i := 0
	return seq.Start(seq.Delay(func() seq.Seq[int] {
		i = 0
		return seq.Combine(
			seq.For(func() bool { return i < 4 }, func() { i++ }, seq.Delay(func() seq.Seq[int] {
				l.E(i)
				if i == 2 {
					return seq.Continue[int]()
				}
				return seq.Bind(l.V(1, i*7), seq.Normal[int])
			})),
			seq.Delay(func() seq.Seq[int] { return seq.Bind(99, seq.Return[int]) }),
		)
	}))
}

// stateless loop-containing Seq VALUES kept in package variables and started by every iterator of their kind
var (
	sharedCycle = seq.Loop(seq.Combine(seq.Bind(1, seq.Normal[int]), seq.Combine(seq.Bind(2, seq.Normal[int]), seq.Bind(3, seq.Normal[int]))))
	sharedFor   = seq.For(nil, func() {}, seq.Combine(seq.Bind(7, seq.Normal[int]), seq.Bind(8, seq.Normal[int])))
	sharedNest  = seq.Loop(seq.Combine(seq.Bind(10, seq.Normal[int]), seq.While(func() bool { return true }, seq.Bind(11, seq.Break[int]))))
)

var kinds = []kind{
	{"Counter", func(l *mon.Log) it { return gens.Counter(l, 4) }},
	{"Fib", func(l *mon.Log) it { return gens.Fib(l) }},
	{"RangeString", func(l *mon.Log) it { return gens.RangeString(l, "aé€z") }},
	{"RangeStringB", func(l *mon.Log) it { return gens.RangeString(l, "żółw świat") }},
	{"RangeStringC", func(l *mon.Log) it { return gens.RangeString(l, "日本語テキスト") }},
	{"RangeStringD", func(l *mon.Log) it { return gens.RangeString(l, "héllo wörld, ünïcödé") }},
	{"RangeSliceMap", func(l *mon.Log) it { return gens.RangeSliceMap(l, []int{1, 2, 3, 4}) }},
	{"Walk", func(l *mon.Log) it { return gens.Walk(l, mon.MkTree(0, 7)) }},
	{"Closure", func(l *mon.Log) it { return gens.Closure(l) }},
	{"Switchy", func(l *mon.Log) it { return gens.Switchy(l, 6) }},
	{"NestedLiteral", func(l *mon.Log) it { return gens.NestedLiteral(l) }},
	{"Chain", func(l *mon.Log) it { return gens.Chain(l, 3) }},
	{"rawTerm", rawTerm},
	{"sharedCycle", func(l *mon.Log) it { return seq.Start(sharedCycle) }},
	{"sharedFor", func(l *mon.Log) it { return seq.Start(sharedFor) }},
	{"sharedNest", func(l *mon.Log) it { return seq.Start(sharedNest) }},
	{"echoByMoveNext", func(l *mon.Log) it { return seq.Start(echoSeq(l, 500)) }},
	{"echoBySend", func(l *mon.Log) it { return &sender{g: seq.Start(echoSeq(l, 100)).(seq.Generator[int])} }},
	{"relayBySend", func(l *mon.Log) it { return &sender{g: seq.Start(relaySeq(l)).(seq.Generator[int])} }},
	// ONE generic generator at many element types (interfaces first: their zero values are all nil)
	{"Each[any]", func(l *mon.Log) it {
		return adapt[any](gens.Each(l, []any{1, "x", 3.5, nil, 5}), func(v any) int { return len(fmt.Sprint(v)) })
	}},
	{"Each[error]", func(l *mon.Log) it {
		return adapt[error](gens.Each(l, []error{errN(7), nil, errN(9), errN(11), nil}), func(e error) int {
			if e == nil {
				return -1
			}
			return int(e.(errN))
		})
	}},
	{"Each[Stringer]", func(l *mon.Log) it {
		return adapt[fmt.Stringer](gens.Each(l, []fmt.Stringer{errN(1), errN(2), errN(3), errN(4)}), func(s fmt.Stringer) int { return len(s.String()) + 100 })
	}},
	{"Each[*Tree]", func(l *mon.Log) it {
		return adapt[*mon.Tree](gens.Each(l, []*mon.Tree{mon.MkTree(0, 3), nil, mon.MkTree(4, 5), nil}), func(t *mon.Tree) int {
			if t == nil {
				return -7
			}
			return t.V
		})
	}},
	{"Each[func]", func(l *mon.Log) it {
		return adapt[func() int](gens.Each(l, []func() int{func() int { return 41 }, nil, func() int { return 43 }, func() int { return 44 }}), func(f func() int) int { return f() })
	}},
	{"Each[[]int]", func(l *mon.Log) it {
		return adapt[[]int](gens.Each(l, [][]int{{1, 2}, nil, {3}, {}}), func(x []int) int { return len(x) + 200 })
	}},
	{"Each[struct]", func(l *mon.Log) it {
		return adapt[struct{ A, B int }](gens.Each(l, []struct{ A, B int }{{1, 2}, {3, 4}, {5, 6}, {7, 8}, {9, 10}, {11, 12}}), func(x struct{ A, B int }) int { return x.A*100 + x.B })
	}},
	{"Each[int8]", func(l *mon.Log) it {
		return adapt[int8](gens.Each(l, []int8{-1, 2, -3}), func(x int8) int { return int(x) })
	}},
	{"Each[string]", func(l *mon.Log) it {
		return adapt[string](gens.Each(l, []string{"a", "bb", "ccc", "dddd"}), func(x string) int { return len(x) + 300 })
	}},
}

// hand-written generators with yield EXPRESSIONS (BindRecv): every yield reports what the previous resume delivered.
// MoveNext resumes with the zero value, Send(v) with v — whatever other iterators are being sent at the time.
func echoSeq(l *mon.Log, base int) seq.Seq[int] {
	var from func(n, carry int) seq.Seq[int]
	from = func(n, carry int) seq.Seq[int] {
		if n == 0 {
			return seq.Normal[int]()
		}
		return seq.BindRecv(base+carry, func(r int) seq.Seq[int] {
			l.E(r)
			return seq.Delay(func() seq.Seq[int] { return from(n-1, r) })
		})
	}
	return seq.Delay(func() seq.Seq[int] { return from(40, 0) })
}

// sender drives a generator with Send(k) instead of MoveNext
type sender struct {
	g  seq.Generator[int]
	n  int
	ok bool
}

func (a *sender) MoveNext() bool {
	a.n++
	_, a.ok = a.g.Send(7000 + a.n)
	return a.ok
}
func (a *sender) Current() int { return a.g.Current() }

// relay: a generator that is driven by Send and, WHILE it is being resumed, advances an inner echo generator with
// a plain MoveNext and passes on what the inner one yields (the inner one must have received the zero value)
func relaySeq(l *mon.Log) seq.Seq[int] {
	return seq.Delay(func() seq.Seq[int] {
		inner := seq.Start(echoSeq(l, 500))
		var step func() seq.Seq[int]
		step = func() seq.Seq[int] {
			if !inner.MoveNext() {
				return seq.Normal[int]()
			}
			return seq.BindRecv(inner.Current(), func(int) seq.Seq[int] { return seq.Delay(step) })
		}
		return step()
	})
}

type errN int

func (e errN) Error() string  { return fmt.Sprintf("err%d", int(e)) }
func (e errN) String() string { return strings.Repeat("s", int(e)) }

type adapter[T any] struct {
	g interface {
		MoveNext() bool
		Current() T
	}
	f func(T) int
	// the value is converted when the advance succeeded (Current of an exhausted iterator is the zero value)
	ok bool
}

func (a *adapter[T]) MoveNext() bool { a.ok = a.g.MoveNext(); return a.ok }
func (a *adapter[T]) Current() int {
	if !a.ok {
		cur := a.g.Current()
		if !reflect.ValueOf(&cur).Elem().IsZero() {
			return -99999 // Current after exhaustion / before start must be the zero value
		}
		return 0
	}
	return a.f(a.g.Current())
}

func adapt[T any](g interface {
	MoveNext() bool
	Current() T
}, f func(T) int) it {
	return &adapter[T]{g: g, f: f}
}

// one advance of an iterator, recorded in its own record
func advance(g it, l *mon.Log, rec *[]string) {
	ok := g.MoveNext()
	*rec = append(*rec, fmt.Sprintf("M=%v C=%d fx=%s", ok, g.Current(), strings.Join(l.Ev, ".")))
	l.Ev = l.Ev[:0]
}

func solo(k kind, m int) (rec []string) {
	defer func() {
		// the generators of the workload are closed and never panic by construction: a panic of an iterator that
		// runs ALONE (after iterators of other kinds have run in this process) is cross-iterator influence
		if p := recover(); p != nil {
			res.Violate("solo:"+k.name, "solo-run-panicked", fmt.Sprintf("a %s iterator consumed alone (after iterators of the kinds listed before it had run in the same process) panicked after %d advances: %v", k.name, len(rec), p), map[string]any{"probe": "schedmon", "only": "solo:" + k.name})
			for len(rec) < m {
				rec = append(rec, fmt.Sprintf("PANIC %v", p))
			}
		}
	}()
	l := &mon.Log{}
	g := k.mk(l)
	for i := 0; i < m; i++ {
		advance(g, l, &rec)
	}
	return rec
}

var res = plib.New()

// schedules enumerates all sequences over {0..k-1} in which every index occurs m times.
func schedules(k, m int, emit func([]int)) {
	left := make([]int, k)
	for i := range left {
		left[i] = m
	}
	cur := make([]int, 0, k*m)
	var rec func()
	rec = func() {
		if len(cur) == k*m {
			emit(cur)
			return
		}
		for i := 0; i < k; i++ {
			if left[i] > 0 {
				left[i]--
				cur = append(cur, i)
				rec()
				cur = cur[:len(cur)-1]
				left[i]++
			}
		}
	}
	rec()
}

func runSchedule(ks []kind, m int, sched []int, solos map[string][]string) {
	logs := make([]*mon.Log, len(ks))
	its := make([]it, len(ks))
	recs := make([][]string, len(ks))
	for i, k := range ks {
		logs[i] = &mon.Log{}
		its[i] = k.mk(logs[i])
	}
	for _, i := range sched {
		func() {
			defer func() {
				if p := recover(); p != nil {
					recs[i] = append(recs[i], fmt.Sprintf("PANIC %v", p))
				}
			}()
			advance(its[i], logs[i], &recs[i])
		}()
	}
	res.Eval(1)
	for i, k := range ks {
		want := solos[k.name]
		if strings.Join(recs[i], "|") != strings.Join(want[:len(recs[i])], "|") {
			names := []string{}
			for _, k := range ks {
				names = append(names, k.name)
			}
			id := fmt.Sprintf("sched:%s:%v", strings.Join(names, ","), sched)
			res.Violate(id, "interleaving-changes-sequence", fmt.Sprintf("iterators %v under schedule %v: iterator #%d (%s)\n alone:       %v\n interleaved: %v", names, sched, i, k.name, want[:len(recs[i])], recs[i]), map[string]any{"probe": "schedmon", "only": id})
		}
	}
}

func deterministic(rng *rand.Rand) {
	k3m, cap4 := 3, 3000
	if plib.Thorough() {
		k3m, cap4 = 4, 60000
	}
	maxM := 6
	solos := map[string][]string{}
	for _, k := range kinds {
		solos[k.name] = solo(k, maxM)
	}
	// a generator resumed by MoveNext receives the zero value also while ANOTHER generator is being resumed by Send:
	// the relay (driven by Send) advances an inner echo generator by MoveNext and passes its values on, so apart from
	// the first element (a generator's first Send only starts it and delivers the SECOND yield) it must deliver what
	// the echo generator delivers alone
	{
		val := func(r string) string { return strings.SplitN(strings.SplitN(r, " fx=", 2)[0], "C=", 2)[1] }
		relay, echo := solos["relayBySend"], solos["echoByMoveNext"]
		for i := 0; i+1 < len(echo) && i < len(relay); i++ {
			res.Eval(1)
			if val(relay[i]) != val(echo[i+1]) {
				res.Violate("relay:"+fmt.Sprint(i), "moveNext-received-a-value-sent-to-another-iterator", fmt.Sprintf("a generator driven by Send advances an inner generator by MoveNext: inner values %v, the same generator consumed alone by MoveNext %v", relay, echo), map[string]any{"probe": "schedmon"})
				break
			}
		}
	}
	n := 0
	// k = 2: all pairs (incl. same kind twice) x all interleavings of 4 advances each (70 per pair)
	for a := range kinds {
		for b := a; b < len(kinds); b++ {
			ks := []kind{kinds[a], kinds[b]}
			schedules(2, 4, func(s []int) { runSchedule(ks, 4, s, solos); n++ })
		}
	}
	res.Count("schedules_k2_m4", n)
	// k = 3: PRNG-chosen triples (always incl. the same generator twice) x all interleavings of m advances each
	n3 := 0
	triples := 6
	if plib.Thorough() {
		triples = 12
	}
	for t := 0; t < triples; t++ {
		a, b := rng.Intn(len(kinds)), rng.Intn(len(kinds))
		ks := []kind{kinds[a], kinds[a], kinds[b]}
		schedules(3, k3m, func(s []int) { runSchedule(ks, k3m, s, solos); n3++ })
	}
	res.Count(fmt.Sprintf("schedules_k3_m%d", k3m), n3)
	// k = 4: PRNG schedules
	n4 := 0
	for t := 0; t < cap4; t++ {
		ks := []kind{kinds[rng.Intn(len(kinds))], kinds[rng.Intn(len(kinds))], kinds[rng.Intn(len(kinds))], kinds[rng.Intn(len(kinds))]}
		var s []int
		for i := 0; i < 4; i++ {
			for j := 0; j < 4; j++ {
				s = append(s, i)
			}
		}
		rng.Shuffle(len(s), func(i, j int) { s[i], s[j] = s[j], s[i] })
		runSchedule(ks, 4, s, solos)
		n4++
	}
	res.Count("schedules_k4_random", n4)
	// history: many panics at nesting depth 100, each recovered by the consumer, must not affect later iterators
	recovered := 0
	for i := 0; i < 300; i++ {
		func() {
			defer func() {
				if recover() != nil {
					recovered++
				}
			}()
			l := &mon.Log{}
			g := gens.PanicAt(l, 100)
			g.MoveNext()
			g.MoveNext()
		}()
	}
	res.Count("recovered_panics_at_depth_100", recovered)
	for _, k := range kinds {
		func() {
			defer func() {
				if p := recover(); p != nil {
					res.Violate("after-panics:"+k.name, "panic-history-affects-other-iterators", fmt.Sprintf("after %d recovered panics in OTHER iterators, a fresh %s iterator panicked: %v", recovered, k.name, p), nil)
				}
			}()
			again := solo(k, maxM)
			res.Eval(1)
			if strings.Join(again, "|") != strings.Join(solos[k.name], "|") {
				res.Violate("after-panics:"+k.name, "panic-history-affects-other-iterators", fmt.Sprintf("after %d recovered panics in other iterators %s yields %v instead of %v", recovered, k.name, again, solos[k.name]), nil)
			}
		}()
	}
	nsp := spawnScenarios()
	res.Count("spawn_orders_checked", nsp)
	res.DistinctN(n + n3 + n4 + nsp)
	res.Sample(map[string]any{"kind": "Walk", "solo_record": solos["Walk"]})
}

// spawnScenarios: parents that yield child generators capturing the variables of their range loop. The children
// are consumed (a) each at once, (b) after the parent finished, in order, (c) in reverse order, (d) round-robin one
// advance at a time while the parent is advanced in between. Every child's record must be the same in all orders.
func spawnScenarios() int {
	type parent struct {
		name string
		mk   func(l *mon.Log) interface {
			MoveNext() bool
			Current() seq.Iterator[int]
		}
	}
	parents := []parent{
		{"SpawnInt", func(l *mon.Log) interface {
			MoveNext() bool
			Current() seq.Iterator[int]
		} {
			return gens.SpawnInt(l, 4)
		}},
		{"SpawnSlice", func(l *mon.Log) interface {
			MoveNext() bool
			Current() seq.Iterator[int]
		} {
			return gens.SpawnSlice(l, []int{5, 6, 7})
		}},
		{"SpawnString", func(l *mon.Log) interface {
			MoveNext() bool
			Current() seq.Iterator[int]
		} {
			return gens.SpawnString(l, "aé€")
		}},
		{"SpawnChan", func(l *mon.Log) interface {
			MoveNext() bool
			Current() seq.Iterator[int]
		} {
			return gens.SpawnChan(l, 3)
		}},
	}
	drain := func(c seq.Iterator[int]) string {
		var out []string
		for c.MoveNext() {
			out = append(out, fmt.Sprint(c.Current()))
		}
		return strings.Join(out, ",")
	}
	checked := 0
	for _, p := range parents {
		p := p
		func() {
			defer func() {
				if pv := recover(); pv != nil {
					res.Violate("spawn:"+p.name, "spawn-scenario-panicked", fmt.Sprintf("parent %s / its children panicked: %v", p.name, pv), nil)
				}
			}()
			records := map[string][]string{}
			// (a) at once
			{
				g := p.mk(&mon.Log{})
				for g.MoveNext() {
					records["at-once"] = append(records["at-once"], drain(g.Current()))
				}
			}
			collect := func() []seq.Iterator[int] {
				var kids []seq.Iterator[int]
				g := p.mk(&mon.Log{})
				for g.MoveNext() {
					kids = append(kids, g.Current())
				}
				return kids
			}
			// (b) after the parent finished, in order
			for _, k := range collect() {
				records["deferred"] = append(records["deferred"], drain(k))
			}
			// (c) reverse order
			{
				kids := collect()
				out := make([]string, len(kids))
				for i := len(kids) - 1; i >= 0; i-- {
					out[i] = drain(kids[i])
				}
				records["reverse"] = out
			}
			// (d) round-robin: the parent is advanced between the advances of the children
			{
				g := p.mk(&mon.Log{})
				var kids []seq.Iterator[int]
				var outs [][]string
				more := true
				for more || len(kids) > 0 {
					if more {
						if more = g.MoveNext(); more {
							kids = append(kids, g.Current())
							outs = append(outs, nil)
						}
					}
					live := false
					for i, k := range kids {
						if k == nil {
							continue
						}
						if k.MoveNext() {
							outs[i] = append(outs[i], fmt.Sprint(k.Current()))
							live = true
						} else {
							kids[i] = nil
						}
					}
					if !more && !live {
						break
					}
				}
				for _, o := range outs {
					records["round-robin"] = append(records["round-robin"], strings.Join(o, ","))
				}
			}
			want := strings.Join(records["at-once"], "|")
			for _, order := range []string{"deferred", "reverse", "round-robin"} {
				res.Eval(1)
				checked++
				if got := strings.Join(records[order], "|"); got != want {
					id := "spawn:" + p.name + ":" + order
					res.Violate(id, "child-depends-on-parent-progress", fmt.Sprintf("children of %s consumed %s yield %v, consumed at once they yield %v", p.name, order, records[order], records["at-once"]), map[string]any{"probe": "schedmon", "only": id})
				}
			}
			if len(records["at-once"]) < 3 {
				res.Violate("spawn:"+p.name, "spawn-workload-too-small", fmt.Sprintf("parent %s produced only %d children", p.name, len(records["at-once"])), nil)
			}
		}()
	}
	return checked
}

// parallel consumption on goroutines (run under -race)
func parallel(rng *rand.Rand, G, rounds int) {
	maxM := 12
	solos := map[string][]string{}
	for _, k := range kinds {
		solos[k.name] = solo(k, maxM)
	}
	var global atomic.Int64
	sigs := map[string]bool{}
	for r := 0; r < rounds; r++ {
		type step struct {
			at int64
			g  int
		}
		stepsPer := make([][]step, G)
		bad := make([]string, G)
		seeds := make([]int64, G)
		for g := range seeds {
			seeds[g] = rng.Int63()
		}
		var wg sync.WaitGroup
		start := make(chan struct{})
		for g := 0; g < G; g++ {
			wg.Add(1)
			go func(g int) {
				defer wg.Done()
				defer func() {
					// a panic while a goroutine consumes ITS OWN iterators can only come from shared runtime state
					if p := recover(); p != nil {
						bad[g] = fmt.Sprintf("goroutine %d panicked while consuming its own iterators: %v", g, p)
					}
				}()
				lr := rand.New(rand.NewSource(seeds[g]))
				// each goroutine owns several iterators; goroutines 2j and 2j+1 use the SAME recursive
				// generators (distinct instances), which is where accidentally shared state would bite
				mine := []kind{kinds[(g/2)%len(kinds)], kinds[4], kinds[8], kinds[lr.Intn(len(kinds))]}
				logs := make([]*mon.Log, len(mine))
				its := make([]it, len(mine))
				recs := make([][]string, len(mine))
				for i, k := range mine {
					logs[i] = &mon.Log{}
					its[i] = k.mk(logs[i])
				}
				<-start
				for s := 0; s < maxM*len(mine); s++ {
					i := s % len(mine)
					if lr.Intn(3) == 0 {
						runtime.Gosched()
					}
					advance(its[i], logs[i], &recs[i])
					stepsPer[g] = append(stepsPer[g], step{global.Add(1), g})
				}
				for i, k := range mine {
					want := solos[k.name]
					if strings.Join(recs[i], "|") != strings.Join(want[:len(recs[i])], "|") {
						bad[g] = fmt.Sprintf("goroutine %d iterator %s: alone %v, in parallel %v", g, k.name, want[:len(recs[i])], recs[i])
					}
				}
			}(g)
		}
		close(start)
		wg.Wait()
		res.Eval(G)
		for g, b := range bad {
			if b != "" {
				res.Violate(fmt.Sprintf("parallel:round%d:g%d", r, g), "parallel-changes-sequence", b, nil)
			}
		}
		// reconstruct the interleaving actually observed from the global step counter
		var all []step
		for _, s := range stepsPer {
			all = append(all, s...)
		}
		sort.Slice(all, func(i, j int) bool { return all[i].at < all[j].at })
		var sb strings.Builder
		for i, s := range all {
			if i >= 96 {
				break
			}
			fmt.Fprintf(&sb, "%d,", s.g)
		}
		sigs[sb.String()] = true
	}
	// deep recursive delegation on many goroutines AT THE SAME TIME (each chain is legal alone)
	{
		const depth = 2500
		soloDeep := func() []int {
			var out []int
			g := gens.Chain(&mon.Log{}, depth)
			for g.MoveNext() {
				out = append(out, g.Current())
			}
			return out
		}
		want := fmt.Sprint(soloDeep())
		var wg sync.WaitGroup
		bad := make([]string, G)
		start := make(chan struct{})
		for g := 0; g < G; g++ {
			wg.Add(1)
			go func(g int) {
				defer wg.Done()
				defer func() {
					if p := recover(); p != nil {
						bad[g] = fmt.Sprintf("goroutine %d panicked while draining its own depth-%d chain: %v", g, depth, p)
					}
				}()
				<-start
				if got := fmt.Sprint(soloDeep()); got != want {
					bad[g] = fmt.Sprintf("goroutine %d: depth-%d chain differs from solo run", g, depth)
				}
			}(g)
		}
		close(start)
		wg.Wait()
		res.Eval(G)
		res.Count("deep_chains_in_parallel", G)
		for g, b := range bad {
			if b != "" {
				res.Violate(fmt.Sprintf("parallel-deep:g%d", g), "parallel-deep-chains", b, nil)
			}
		}
	}
	// hand-over: ONE iterator advanced alternately by two goroutines (properly synchronised through
	// unbuffered channels): its record must equal the solo record and the race detector must stay silent
	for _, k := range kinds {
		l := &mon.Log{}
		g := k.mk(l)
		var rec []string
		turnA, turnB := make(chan int), make(chan int)
		var wg sync.WaitGroup
		worker := func(my, other chan int) {
			defer wg.Done()
			for n := range my {
				advance(g, l, &rec)
				if n+1 >= maxM {
					close(other)
					return
				}
				other <- n + 1
			}
		}
		wg.Add(2)
		go worker(turnA, turnB)
		go worker(turnB, turnA)
		turnA <- 0
		wg.Wait()
		res.Eval(1)
		want := solos[k.name]
		if len(rec) != maxM || strings.Join(rec, "|") != strings.Join(want[:len(rec)], "|") {
			res.Violate("handover:"+k.name, "handover-changes-sequence", fmt.Sprintf("iterator %s advanced alternately by two goroutines: alone %v, handed over %v", k.name, want, rec), nil)
		}
		res.Count("handover_advances", len(rec))
	}
	res.Count("parallel_rounds", rounds)
	res.Count("goroutines_per_round", G)
	res.Count("distinct_interleavings_observed", len(sigs))
	res.DistinctN(len(sigs))
}

// cold: the goroutines are the FIRST users of the runtime in this process (no solo run, no warm-up before them):
// lazily initialised process-wide state is then initialised concurrently. Records are compared with solo runs
// made afterwards.
func cold(G int) {
	maxM := 12
	type out struct {
		names []string
		recs  [][]string
		bad   string
	}
	outs := make([]out, G)
	var wg sync.WaitGroup
	start := make(chan struct{})
	for g := 0; g < G; g++ {
		wg.Add(1)
		go func(g int) {
			defer wg.Done()
			defer func() {
				if p := recover(); p != nil {
					outs[g].bad = fmt.Sprintf("goroutine %d panicked while consuming its own iterators: %v", g, p)
				}
			}()
			mine := []kind{kinds[g%len(kinds)], kinds[(g*7+3)%len(kinds)]}
			<-start
			for _, k := range mine {
				l := &mon.Log{}
				it := k.mk(l)
				var rec []string
				for i := 0; i < maxM; i++ {
					advance(it, l, &rec)
				}
				outs[g].names = append(outs[g].names, k.name)
				outs[g].recs = append(outs[g].recs, rec)
			}
		}(g)
	}
	close(start)
	wg.Wait()
	res.Eval(G)
	for g, o := range outs {
		if o.bad != "" {
			res.Violate(fmt.Sprintf("cold:g%d", g), "parallel-changes-sequence", o.bad, nil)
			continue
		}
		for i, name := range o.names {
			var k kind
			for _, kk := range kinds {
				if kk.name == name {
					k = kk
				}
			}
			want := solo(k, maxM)
			if strings.Join(o.recs[i], "|") != strings.Join(want, "|") {
				res.Violate(fmt.Sprintf("cold:g%d:%s", g, name), "parallel-changes-sequence", fmt.Sprintf("goroutine %d iterator %s (first users of the runtime in the process): alone %v, in parallel %v", g, name, want, o.recs[i]), nil)
			}
			res.DistinctN(1)
		}
	}
	res.Count("cold_start_goroutines", G)
}

func main() {
	mode := flag.String("mode", "det", "det|par|cold")
	plib.Flags()
	rng := rand.New(rand.NewSource(plib.Seed))
	switch *mode {
	case "det":
		deterministic(rng)
	case "par":
		G, rounds := 16, 40
		if plib.Thorough() {
			G, rounds = 64, 200
		}
		parallel(rng, G, rounds)
	case "cold":
		cold(16)
	}
	res.Write()
}
