// go-co source of the C14 workload: closed generators (no user-level shared
// state; every side effect goes to the instance's own log).
package gens

import (
	. "github.com/goghcrow/go-co"

	"scratch/schedmon/mon"
)

func Counter(l *mon.Log, n int) Iter[int] {
	for i := 0; i < n; i++ {
		l.E(1)
		Yield(l.V(2, i*10))
		l.E(3)
	}
	l.E(4)
	return nil
}

func Fib(l *mon.Log) Iter[int] {
	a, b := 1, 1
	for {
		l.E(1)
		Yield(b)
		a, b = b, a+b
	}
}

func RangeString(l *mon.Log, s string) Iter[int] {
	for i, r := range s {
		l.E(int(r))
		Yield(i*1000 + int(r))
	}
	return nil
}

func RangeSliceMap(l *mon.Log, xs []int) Iter[int] {
	m := map[int]int{7: 70}
	for _, x := range xs {
		for k, v := range m {
			Yield(l.V(1, x*100+k+v))
		}
		if x%2 == 0 {
			continue
		}
		l.E(x)
	}
	return nil
}

func Walk(l *mon.Log, t *mon.Tree) Iter[int] {
	if t == nil {
		return nil
	}
	l.E(t.V)
	YieldFrom(Walk(l, t.L))
	Yield(t.V)
	YieldFrom(Walk(l, t.R))
	return nil
}

func Closure(l *mon.Log) Iter[int] {
	x := 0
	inc := func() int { x += 3; return l.V(1, x) }
	for {
		Yield(inc())
		if x > 30 {
			break
		}
	}
	Yield(-x)
	return nil
}

func Switchy(l *mon.Log, n int) Iter[int] {
	for i := 0; i < n; i++ {
		switch i % 3 {
		case 0:
			Yield(i)
		case 1:
			l.E(i)
			if i > 2 {
				Yield(i * 2)
			}
		default:
			Yield(-i)
			Yield(l.V(9, i*i))
		}
	}
	return nil
}

func NestedLiteral(l *mon.Log) Iter[int] {
	inner := func(base int) Iter[int] {
		for j := 0; j < 2; j++ {
			Yield(l.V(1, base+j))
		}
		return nil
	}
	for i := 0; i < 3; i++ {
		YieldFrom(inner(i * 10))
		Yield(i)
	}
	return nil
}

// PanicAt delegates d levels deep and panics at the bottom (the consumer recovers).
func PanicAt(l *mon.Log, d int) Iter[int] {
	if d == 0 {
		Yield(l.V(1, 0))
		panic("bottom")
	}
	YieldFrom(PanicAt(l, d-1))
	return nil
}

// Chain delegates to a fresh instance of itself (recursive delegation).
func Chain(l *mon.Log, d int) Iter[int] {
	if d > 0 {
		Yield(l.V(1, d))
		YieldFrom(Chain(l, d-1))
		Yield(l.V(2, -d))
	}
	return nil
}

// Each is ONE generic generator instantiated at many element types (interface types, pointers, funcs,
// slices, maps, channels, arrays, structs): whatever the runtime keeps per element type must not be
// shared between instantiations. It uses continue, break and the fall-off end.
func Each[T any](l *mon.Log, xs []T) Iter[T] {
	for i, x := range xs {
		if i == 1 {
			l.E(i)
			continue
		}
		Yield(x)
		l.E(10 + i)
		if i == 3 {
			break
		}
	}
	if len(xs) > 5 {
		return nil
	}
	l.E(99)
	return nil
}

// Spawn* yield CHILD generators that capture the iteration variables of a range loop: every child owns the
// variables of its iteration, so it must yield the same values whenever it is consumed (at once, after the
// parent moved on, after the parent finished).
func SpawnInt(l *mon.Log, n int) Iter[Iter[int]] {
	for i := range n {
		l.E(i)
		Yield(func() Iter[int] {
			for j := 0; j < 2; j++ {
				Yield(i*10 + j)
			}
			return nil
		}())
	}
	return nil
}

func SpawnSlice(l *mon.Log, xs []int) Iter[Iter[int]] {
	for i, x := range xs {
		l.E(i)
		Yield(func() Iter[int] {
			Yield(i)
			Yield(x)
			Yield(i + x)
			return nil
		}())
	}
	return nil
}

func SpawnString(l *mon.Log, s string) Iter[Iter[int]] {
	for i, r := range s {
		child := func() Iter[int] {
			Yield(i)
			Yield(int(r))
			return nil
		}
		l.E(i)
		Yield(child())
	}
	return nil
}

func SpawnChan(l *mon.Log, n int) Iter[Iter[int]] {
	ch := make(chan int, n)
	for i := 0; i < n; i++ {
		ch <- i * 3
	}
	close(ch)
	for v := range ch {
		l.E(v)
		Yield(func() Iter[int] {
			Yield(v)
			Yield(-v)
			return nil
		}())
	}
	return nil
}
