// go-co source of the C14 workload: closed generators (no user-level shared
// state; every side effect goes to the instance's own log).
package gens

import (
	. "github.com/goghcrow/go-co"

	"scratch/schedmon/mon"
)

func Counter(l *mon.Log, n int) Iter[int] {
	for i := 0; i < n; i++ {
		l.E(1)
		Yield(l.V(2, i*10))
		l.E(3)
	}
	l.E(4)
	return nil
}

func Fib(l *mon.Log) Iter[int] {
	a, b := 1, 1
	for {
		l.E(1)
		Yield(b)
		a, b = b, a+b
	}
}

func RangeString(l *mon.Log, s string) Iter[int] {
	for i, r := range s {
		l.E(int(r))
		Yield(i*1000 + int(r))
	}
	return nil
}

func RangeSliceMap(l *mon.Log, xs []int) Iter[int] {
	m := map[int]int{7: 70}
	for _, x := range xs {
		for k, v := range m {
			Yield(l.V(1, x*100+k+v))
		}
		if x%2 == 0 {
			continue
		}
		l.E(x)
	}
	return nil
}

func Walk(l *mon.Log, t *mon.Tree) Iter[int] {
	if t == nil {
		return nil
	}
	l.E(t.V)
	YieldFrom(Walk(l, t.L))
	Yield(t.V)
	YieldFrom(Walk(l, t.R))
	return nil
}

func Closure(l *mon.Log) Iter[int] {
	x := 0
	inc := func() int { x += 3; return l.V(1, x) }
	for {
		Yield(inc())
		if x > 30 {
			break
		}
	}
	Yield(-x)
	return nil
}

func Switchy(l *mon.Log, n int) Iter[int] {
	for i := 0; i < n; i++ {
		switch i % 3 {
		case 0:
			Yield(i)
		case 1:
			l.E(i)
			if i > 2 {
				Yield(i * 2)
			}
		default:
			Yield(-i)
			Yield(l.V(9, i*i))
		}
	}
	return nil
}

func NestedLiteral(l *mon.Log) Iter[int] {
	inner := func(base int) Iter[int] {
		for j := 0; j < 2; j++ {
			Yield(l.V(1, base+j))
		}
		return nil
	}
	for i := 0; i < 3; i++ {
		YieldFrom(inner(i * 10))
		Yield(i)
	}
	return nil
}

// PanicAt delegates d levels deep and panics at the bottom (the consumer recovers).
func PanicAt(l *mon.Log, d int) Iter[int] {
	if d == 0 {
		Yield(l.V(1, 0))
		panic("bottom")
	}
	YieldFrom(PanicAt(l, d-1))
	return nil
}

// Chain delegates to a fresh instance of itself (recursive delegation).
func Chain(l *mon.Log, d int) Iter[int] {
	if d > 0 {
		Yield(l.V(1, d))
		YieldFrom(Chain(l, d-1))
		Yield(l.V(2, -d))
	}
	return nil
}
