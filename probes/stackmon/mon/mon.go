// Package mon records call-stack depths at chosen iteration indices (C17).
package mon

import "runtime"

var (
	// Depths maps iteration index -> call-stack depth observed there (first observation).
	Depths = map[int]int{}
	marks  = map[int]bool{2: true, 10: true, 100: true, 1000: true, 10000: true, 100000: true, 1000000: true, 3000000: true}
	buf    = make([]uintptr, 1<<17)
)

// Depth is the current call-stack depth in frames (saturates at len(buf)).
func Depth() int { return runtime.Callers(0, buf) }

// At samples the depth if i is one of the marked iteration indices.
func At(i int) {
	if marks[i] {
		if _, ok := Depths[i]; !ok {
			Depths[i] = Depth()
		}
	}
}

// Cond is At usable inside a loop condition.
func Cond(i int) bool {
	At(i)
	return true
}

// Never is false at run time (used to keep a statically present yield unreachable).
func Never() bool { return len(Depths) < 0 }
