// Probe for C17: runs ONE configuration per process (a stack overflow is a
// fatal error that cannot be recovered) and prints the sampled depths.
//
//	stackmon -config <name> -n <iterations>
package main

import (
	"runtime/debug"
	"encoding/json"
	"flag"
	"fmt"
	"os"

	"github.com/goghcrow/go-co/seq"
	loops "scratch/stackmon/out/loops"
	"scratch/stackmon/mon"
)

type it interface {
	MoveNext() bool
	Current() int
}

// auto holds the PRNG loop nests registered by the generated file auto_reg.go (absent = none).
var auto = map[string]func(n int, first bool) it{}

func rawFor(n int) it {
	i := 0
	return seq.Start(seq.For(func() bool { return i < n }, func() { i++ }, seq.Delay(func() seq.Seq[int] {
		mon.At(i)
		if i == n-1 {
			return seq.Bind(i, seq.Normal[int])
		}
		return seq.Normal[int]()
	})))
}

// rawSharedInner re-runs ONE inner loop value for every outer iteration.
func rawSharedInner(n int, first bool) it {
	r, c := 0, 0
	inner := seq.While(func() bool { return c < 3 }, seq.Delay(func() seq.Seq[int] {
		c++
		if (r == n-1 && c == 3) || (first && r == 0 && c == 1) {
			return seq.Bind(r, seq.Normal[int])
		}
		return seq.Normal[int]()
	}))
	return seq.Start(seq.While(func() bool { mon.At(r); return r < n }, seq.Combine(inner, seq.Delay(func() seq.Seq[int] {
		r++
		c = 0
		return seq.Normal[int]()
	}))))
}

// rawRecvThenStretch: the first iteration yields through BindRecv (resumed by MoveNext with the zero value),
// the long non-yielding stretch follows that resume.
func rawRecvThenStretch(n int) it {
	i := 0
	return seq.Start(seq.For(func() bool { return i < n }, func() { i++ }, seq.Delay(func() seq.Seq[int] {
		mon.At(i)
		switch {
		case i == 0:
			return seq.BindRecv(0, func(int) seq.Seq[int] { return seq.Normal[int]() })
		case i == n-1:
			return seq.Bind(i, seq.Normal[int])
		}
		return seq.Normal[int]()
	})))
}

// rawRecvInWhileCombine: BindRecv as first half of a Combine inside a While loop, then the stretch
func rawRecvInWhileCombine(n int) it {
	i := 0
	return seq.Start(seq.While(func() bool { return i < n }, seq.Combine(
		seq.Delay(func() seq.Seq[int] {
			mon.At(i)
			i++
			if i == 1 {
				return seq.BindRecv(1, func(int) seq.Seq[int] { return seq.Normal[int]() })
			}
			return seq.Normal[int]()
		}),
		seq.Delay(func() seq.Seq[int] {
			if i == n {
				return seq.Bind(i, seq.Normal[int])
			}
			return seq.Normal[int]()
		}),
	)))
}

func rawWhileContinue(n int) it {
	i := 0
	return seq.Start(seq.While(func() bool { return i < n }, seq.Delay(func() seq.Seq[int] {
		mon.At(i)
		i++
		if i == n {
			return seq.Bind(i, seq.Normal[int])
		}
		return seq.Continue[int]()
	})))
}

func rawLoopBreak(n int) it {
	i := 0
	return seq.Start(seq.Loop(seq.Delay(func() seq.Seq[int] {
		mon.At(i)
		i++
		if i >= n {
			return seq.Bind(i, seq.Break[int])
		}
		return seq.Normal[int]()
	})))
}

func rawCombineInLoop(n int) it {
	i := 0
	return seq.Start(seq.While(func() bool { return i < n }, seq.Combine(
		seq.Delay(func() seq.Seq[int] { mon.At(i); i++; return seq.Normal[int]() }),
		seq.Delay(func() seq.Seq[int] {
			if i == n {
				return seq.Bind(i, seq.Normal[int])
			}
			return seq.Normal[int]()
		}),
	)))
}

func main() {
	config := flag.String("config", "", "")
	n := flag.Int("n", 1000, "")
	first := flag.Bool("first", false, "also yield at the first iteration (the long non-yielding stretch then comes AFTER a yield)")
	flag.Parse()
	// second oracle, independent of where the depth probes sit: the whole configuration runs under a small stack
	// limit (1 MiB; the default is 1 GiB). A bounded call depth of a few hundred frames needs a few dozen KiB;
	// stack that grows with n anywhere (also inside the runtime's own iterators, where no probe can be placed)
	// ends in the fatal "stack overflow" the property is about.
	debug.SetMaxStack(1 << 20)
	res := map[string]any{"config": *config, "n": *n}
	var g it
	switch *config {
	case "ForPost":
		g = loops.ForPost(*n, *first)
	case "ForCondProbe":
		g = loops.ForCondProbe(*n, *first)
	case "While":
		g = loops.While(*n, *first)
	case "Infinite":
		g = loops.Infinite(*n, *first)
	case "Continue":
		g = loops.Continue(*n, *first)
	case "ContinueWhile":
		g = loops.ContinueWhile(*n, *first)
	case "RangeInt":
		g = loops.RangeInt(*n, *first)
	case "RangeSlice":
		g = loops.RangeSlice(*n, *first)
	case "MapDeleteAhead":
		g = loops.MapDeleteAhead(*n, *first)
	case "MapClearAhead":
		g = loops.MapClearAhead(*n, *first)
	case "ChanManySkipped":
		g = loops.ChanManySkipped(*n, *first)
	case "StringLong":
		g = loops.StringLong(*n, *first)
	case "Switch":
		g = loops.Switch(*n, *first)
	case "Nested":
		g = loops.Nested(*n, *first)
	case "Filter":
		g = loops.Filter(*n, *first)
	case "NestedCondInner":
		g = loops.NestedCondInner(*n, *first)
	case "NestedEndlessInner":
		g = loops.NestedEndlessInner(*n, *first)
	case "ThreeLevels":
		g = loops.ThreeLevels(*n, *first)
	case "FlatMap":
		g = loops.FlatMap(*n, *first)
	case "ManualPull":
		g = loops.ManualPull(*n, *first)
	case "RangeOtherInBody":
		g = loops.RangeOtherInBody(*n, *first)
	case "rawSharedInner":
		g = rawSharedInner(*n, *first)
	case "rawRecvThenStretch":
		g = rawRecvThenStretch(*n)
	case "rawRecvInWhileCombine":
		g = rawRecvInWhileCombine(*n)
	case "rawFor":
		g = rawFor(*n)
	case "rawWhileContinue":
		g = rawWhileContinue(*n)
	case "rawLoopBreak":
		g = rawLoopBreak(*n)
	case "rawCombineInLoop":
		g = rawCombineInLoop(*n)
	case "Chain":
		// delegation depth: depths for d = 1..n
		ds := map[int]int{}
		for d := 1; d <= *n; d++ {
			var out int
			c := loops.Chain(d, &out)
			if !c.MoveNext() {
				fmt.Println("chain yielded nothing")
				os.Exit(2)
			}
			ds[d] = out
		}
		res["chain_depths"] = ds
		bs, _ := json.Marshal(res)
		fmt.Println("RESULT:" + string(bs))
		return
	default:
		mk, ok := auto[*config]
		if !ok {
			fmt.Println("unknown config")
			os.Exit(2)
		}
		g = mk(*n, *first)
	}
	yields := 0
	for g.MoveNext() {
		yields++
	}
	res["yields"] = yields
	res["first"] = *first
	res["depths"] = mon.Depths
	bs, _ := json.Marshal(res)
	fmt.Println("RESULT:" + string(bs))
}
