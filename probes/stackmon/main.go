// Probe for C17: runs ONE configuration per process (a stack overflow is a
// fatal error that cannot be recovered) and prints the sampled depths.
//
//	stackmon -config <name> -n <iterations>
package main

import (
	"encoding/json"
	"flag"
	"fmt"
	"os"

	"github.com/goghcrow/go-co/seq"
	loops "scratch/stackmon/out/loops"
	"scratch/stackmon/mon"
)

type it interface {
	MoveNext() bool
	Current() int
}

func rawFor(n int) it {
	i := 0
	return seq.Start(seq.For(func() bool { return i < n }, func() { i++ }, seq.Delay(func() seq.Seq[int] {
		mon.At(i)
		if i == n-1 {
			return seq.Bind(i, seq.Normal[int])
		}
		return seq.Normal[int]()
	})))
}

func rawWhileContinue(n int) it {
	i := 0
	return seq.Start(seq.While(func() bool { return i < n }, seq.Delay(func() seq.Seq[int] {
		mon.At(i)
		i++
		if i == n {
			return seq.Bind(i, seq.Normal[int])
		}
		return seq.Continue[int]()
	})))
}

func rawLoopBreak(n int) it {
	i := 0
	return seq.Start(seq.Loop(seq.Delay(func() seq.Seq[int] {
		mon.At(i)
		i++
		if i >= n {
			return seq.Bind(i, seq.Break[int])
		}
		return seq.Normal[int]()
	})))
}

func rawCombineInLoop(n int) it {
	i := 0
	return seq.Start(seq.While(func() bool { return i < n }, seq.Combine(
		seq.Delay(func() seq.Seq[int] { mon.At(i); i++; return seq.Normal[int]() }),
		seq.Delay(func() seq.Seq[int] {
			if i == n {
				return seq.Bind(i, seq.Normal[int])
			}
			return seq.Normal[int]()
		}),
	)))
}

func main() {
	config := flag.String("config", "", "")
	n := flag.Int("n", 1000, "")
	flag.Parse()
	res := map[string]any{"config": *config, "n": *n}
	var g it
	switch *config {
	case "ForPost":
		g = loops.ForPost(*n)
	case "ForCondProbe":
		g = loops.ForCondProbe(*n)
	case "While":
		g = loops.While(*n)
	case "Infinite":
		g = loops.Infinite(*n)
	case "Continue":
		g = loops.Continue(*n)
	case "ContinueWhile":
		g = loops.ContinueWhile(*n)
	case "RangeInt":
		g = loops.RangeInt(*n)
	case "RangeSlice":
		g = loops.RangeSlice(*n)
	case "Switch":
		g = loops.Switch(*n)
	case "Nested":
		g = loops.Nested(*n)
	case "Filter":
		g = loops.Filter(*n)
	case "rawFor":
		g = rawFor(*n)
	case "rawWhileContinue":
		g = rawWhileContinue(*n)
	case "rawLoopBreak":
		g = rawLoopBreak(*n)
	case "rawCombineInLoop":
		g = rawCombineInLoop(*n)
	case "Chain":
		// delegation depth: depths for d = 1..n
		ds := map[int]int{}
		for d := 1; d <= *n; d++ {
			var out int
			c := loops.Chain(d, &out)
			if !c.MoveNext() {
				fmt.Println("chain yielded nothing")
				os.Exit(2)
			}
			ds[d] = out
		}
		res["chain_depths"] = ds
		bs, _ := json.Marshal(res)
		fmt.Println("RESULT:" + string(bs))
		return
	default:
		fmt.Println("unknown config")
		os.Exit(2)
	}
	yields := 0
	for g.MoveNext() {
		yields++
	}
	res["yields"] = yields
	res["depths"] = mon.Depths
	bs, _ := json.Marshal(res)
	fmt.Println("RESULT:" + string(bs))
}
