// go-co source of the C17 workload: loops whose body yields only on the last
// iteration (a filter rejecting n-1 elements), in every loop form, plus
// delegation chains. Compiled by the real compiler on every run.
package loops

import (
	. "github.com/goghcrow/go-co"

	"scratch/stackmon/mon"
)

func ForPost(n int) Iter[int] {
	for i := 0; i < n; i++ {
		mon.At(i)
		if i == n-1 {
			Yield(i)
		}
	}
	return nil
}

func ForCondProbe(n int) Iter[int] {
	for i := 0; mon.Cond(i) && i < n; i++ {
		if i == n-1 {
			Yield(i)
		}
	}
	return nil
}

func While(n int) Iter[int] {
	i := 0
	for i < n {
		mon.At(i)
		i++
		if i == n {
			Yield(i)
		}
	}
	return nil
}

func Infinite(n int) Iter[int] {
	i := 0
	for {
		mon.At(i)
		i++
		if i >= n {
			Yield(i)
			break
		}
	}
	return nil
}

func Continue(n int) Iter[int] {
	for i := 0; i < n; i++ {
		mon.At(i)
		if i < n-1 {
			continue
		}
		Yield(i)
	}
	return nil
}

func ContinueWhile(n int) Iter[int] {
	i := 0
	for i < n {
		mon.At(i)
		i++
		if i%2 == 0 {
			continue
		}
		if i >= n-1 {
			Yield(i)
		}
	}
	return nil
}

func RangeInt(n int) Iter[int] {
	for i := range n {
		mon.At(i)
		if i == n-1 {
			Yield(i)
		}
	}
	return nil
}

func RangeSlice(n int) Iter[int] {
	xs := make([]int, n)
	for i := range xs {
		mon.At(i)
		if i == n-1 {
			Yield(i)
		}
	}
	return nil
}

func Switch(n int) Iter[int] {
	for i := 0; i < n; i++ {
		mon.At(i)
		switch {
		case i == n-1:
			Yield(i)
		case i%3 == 0:
			continue
		}
	}
	return nil
}

func Nested(n int) Iter[int] {
	k := 0
	for a := 0; a*100 < n; a++ {
		for b := 0; b < 100; b++ {
			mon.At(k)
			k++
			if k == n {
				Yield(k)
			}
		}
	}
	return nil
}

// Filter is the motivating pattern: a source that yields everything and a
// filter that rejects all but the last element.
func Source(n int) Iter[int] {
	for i := 0; i < n; i++ {
		Yield(i)
	}
	return nil
}

func Filter(n int) Iter[int] {
	for v := range Source(n) {
		mon.At(v)
		if v == n-1 {
			Yield(v)
		}
	}
	return nil
}

// Chain delegates d levels deep; the depth is sampled in the innermost body.
func Chain(d int, out *int) Iter[int] {
	if d == 0 {
		*out = mon.Depth()
		Yield(0)
		return nil
	}
	YieldFrom(Chain(d-1, out))
	return nil
}
