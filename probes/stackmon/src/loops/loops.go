// go-co source of the C17 workload: loops whose body yields only on the last
// iteration (a filter rejecting n-1 elements), in every loop form, plus
// delegation chains. Compiled by the real compiler on every run.
package loops

import (
	. "github.com/goghcrow/go-co"

	"scratch/stackmon/mon"
)

func ForPost(n int, first bool) Iter[int] {
	for i := 0; i < n; i++ {
		mon.At(i)
		if i == n-1 || (first && i == 0) {
			Yield(i)
		}
	}
	return nil
}

func ForCondProbe(n int, first bool) Iter[int] {
	for i := 0; mon.Cond(i) && i < n; i++ {
		if i == n-1 || (first && i == 0) {
			Yield(i)
		}
	}
	return nil
}

func While(n int, first bool) Iter[int] {
	i := 0
	for i < n {
		mon.At(i)
		i++
		if i == n || (first && i == 1) {
			Yield(i)
		}
	}
	return nil
}

func Infinite(n int, first bool) Iter[int] {
	i := 0
	for {
		mon.At(i)
		i++
		if first && i == 1 {
			Yield(i)
		}
		if i >= n {
			Yield(i)
			break
		}
	}
	return nil
}

func Continue(n int, first bool) Iter[int] {
	for i := 0; i < n; i++ {
		mon.At(i)
		if first && i == 0 {
			Yield(i)
		}
		if i < n-1 {
			continue
		}
		Yield(i)
	}
	return nil
}

func ContinueWhile(n int, first bool) Iter[int] {
	i := 0
	for i < n {
		mon.At(i)
		i++
		if first && i == 1 {
			Yield(i)
		}
		if i%2 == 0 {
			continue
		}
		if i >= n-1 {
			Yield(i)
		}
	}
	return nil
}

func RangeInt(n int, first bool) Iter[int] {
	for i := range n {
		mon.At(i)
		if i == n-1 || (first && i == 0) {
			Yield(i)
		}
	}
	return nil
}

func RangeSlice(n int, first bool) Iter[int] {
	xs := make([]int, n)
	for i := range xs {
		mon.At(i)
		if i == n-1 || (first && i == 0) {
			Yield(i)
		}
	}
	return nil
}

// MapDeleteAhead ranges over a map of n entries; the first iteration deletes all entries but a handful, so the
// iterator has to pass over ~n removed entries INSIDE one advance (no loop body runs for them).
func MapDeleteAhead(n int, first bool) Iter[int] {
	m := make(map[int]int, n)
	for i := 0; i < n; i++ {
		m[i] = i
	}
	visits := 0
	for k := range m {
		mon.At(visits)
		if visits == 0 {
			for j := 0; j < n; j++ {
				if j != k && j%(n/4+1) != 0 {
					delete(m, j)
				}
			}
		}
		visits++
		if first || visits > 1 {
			Yield(k)
		}
	}
	Yield(-1)
	return nil
}

// MapClearAhead: the whole map is cleared during the first iteration.
func MapClearAhead(n int, first bool) Iter[int] {
	m := make(map[int]int, n)
	for i := 0; i < n; i++ {
		m[i] = i
	}
	visits := 0
	for range m {
		mon.At(visits)
		visits++
		clear(m)
		if first {
			Yield(visits)
		}
	}
	Yield(-1)
	return nil
}

// ChanManySkipped ranges over a channel of n values of which only the last is yielded.
func ChanManySkipped(n int, first bool) Iter[int] {
	ch := make(chan int, 64)
	go func() {
		for i := 0; i < n; i++ {
			ch <- i
		}
		close(ch)
	}()
	for v := range ch {
		mon.At(v)
		if v == n-1 || (first && v == 0) {
			Yield(v)
		}
	}
	return nil
}

// StringLong ranges over a string of n multi-byte runes.
func StringLong(n int, first bool) Iter[int] {
	bs := make([]byte, 0, 2*n)
	for i := 0; i < n; i++ {
		bs = append(bs, 0xc3, 0xa9)
	}
	s := string(bs)
	for i := range s {
		mon.At(i / 2)
		if i/2 == n-1 || (first && i == 0) {
			Yield(i)
		}
	}
	return nil
}

func Switch(n int, first bool) Iter[int] {
	for i := 0; i < n; i++ {
		mon.At(i)
		switch {
		case i == n-1 || (first && i == 0):
			Yield(i)
		case i%3 == 0:
			continue
		}
	}
	return nil
}

func Nested(n int, first bool) Iter[int] {
	k := 0
	for a := 0; a*100 < n; a++ {
		for b := 0; b < 100; b++ {
			mon.At(k)
			k++
			if k == n || (first && k == 1) {
				Yield(k)
			}
		}
	}
	return nil
}

// NestedCondInner: the inner loop has no init statement and contains a yield, so the
// optimiser may build it once and re-run the same loop value for every outer iteration.
func NestedCondInner(n int, first bool) Iter[int] {
	r, c := 0, 0
	for r < n {
		mon.At(r)
		for c < 3 {
			if (r == n-1 && c == 2) || (first && r == 0 && c == 0) {
				Yield(r)
			}
			c++
		}
		r++
		c = 0
	}
	return nil
}

func NestedEndlessInner(n int, first bool) Iter[int] {
	r, c := 0, 0
	for {
		mon.At(r)
		for {
			if (r == n-1 && c == 1) || (first && r == 0 && c == 0) {
				Yield(r)
			}
			c++
			if c > 2 {
				break
			}
		}
		r++
		c = 0
		if r >= n {
			break
		}
	}
	return nil
}

func ThreeLevels(n int, first bool) Iter[int] {
	k, a, b := 0, 0, 0
	for a*16 < n {
		for b < 4 {
			for c := 0; c < 4; c++ {
				mon.At(k)
				k++
				if k == n || (first && k == 1) {
					Yield(k)
				}
			}
			b++
		}
		a++
		b = 0
	}
	return nil
}

// Filter is the motivating pattern: a source that yields everything and a
// filter that rejects all but the last element.
func Source(n int) Iter[int] {
	for i := 0; i < n; i++ {
		Yield(i)
	}
	return nil
}

func Filter(n int, first bool) Iter[int] {
	for v := range Source(n) {
		mon.At(v)
		if v == n-1 || (first && v == 0) {
			Yield(v)
		}
	}
	return nil
}

// Sub yields only for the last outer index: mostly empty sub-generators.
func Sub(i, n int, first bool) Iter[int] {
	if i == n-1 || (first && i == 0) {
		Yield(i)
	}
	return nil
}

// FlatMap: the loop BODY advances another generator in every iteration of the non-yielding stretch.
func FlatMap(n int, first bool) Iter[int] {
	for i := 0; i < n; i++ {
		mon.At(i)
		YieldFrom(Sub(i, n, first))
	}
	return nil
}

// ManualPull: the body pulls from another generator by hand.
func ManualPull(n int, first bool) Iter[int] {
	src := Source(n)
	i := 0
	for i < n {
		mon.At(i)
		if !src.MoveNext() {
			break
		}
		v := src.Current()
		if v == n-1 || (first && v == 0) {
			Yield(v)
		}
		i++
	}
	return nil
}

func RangeOtherInBody(n int, first bool) Iter[int] {
	for i := 0; i*4 < n; i++ {
		for v := range Source(4) {
			k := i*4 + v
			mon.At(k)
			if k == n-1 || (first && k == 0) {
				Yield(k)
			}
		}
	}
	return nil
}

// Chain delegates d levels deep; the depth is sampled in the innermost body.
func Chain(d int, out *int) Iter[int] {
	if d == 0 {
		*out = mon.Depth()
		Yield(0)
		return nil
	}
	YieldFrom(Chain(d-1, out))
	return nil
}
