// Package ref is the reference coroutine runtime of the diff-trace engine: a
// generator body runs as a real coroutine (the standard library's iter.Pull),
// Yield really suspends it and MoveNext resumes it. It is the trusted base of
// E1 (≈60 lines) and deliberately shares nothing with goghcrow/go-co.
package ref

import "iter"

// Iter is what a reference-rendered generator returns.
type Iter[V any] interface {
	MoveNext() bool
	Current() V
	All() iter.Seq[V]
	Stop()
}

// Y is the handle the rendered body uses to yield.
type Y[V any] struct{ yield func(V) bool }

type stopped struct{}

type gen[V any] struct {
	body     func(*Y[V])
	next     func() (V, bool)
	stop     func()
	started  bool
	done     bool
	cur      V
	panicked bool // the body panicked; MoveNext re-raises the value in the resuming call
	panicVal any
}

// New creates a generator; nothing of body runs before the first MoveNext.
func New[V any](body func(y *Y[V])) Iter[V] { return &gen[V]{body: body} }

func (g *gen[V]) MoveNext() bool {
	var zero V
	if g.done {
		return false
	}
	if !g.started {
		g.started = true
		g.next, g.stop = iter.Pull(func(yield func(V) bool) {
			returned := false
			defer func() {
				if returned {
					return
				}
				// the body panicked (detected by not returning: the value may be nil under
				// GODEBUG=panicnil=1); carry the value over to the MoveNext that resumed the body
				p := recover()
				if _, ok := p.(stopped); ok {
					return
				}
				g.panicked, g.panicVal = true, p
			}()
			g.body(&Y[V]{yield})
			returned = true
		})
	}
	v, ok := g.next()
	if !ok {
		g.done = true
		g.cur = zero
		if g.panicked {
			g.panicked = false
			panic(g.panicVal)
		}
		return false
	}
	g.cur = v
	return true
}

func (g *gen[V]) Current() V { return g.cur }

// All adapts the iterator to range-over-func; it pulls exactly when the loop asks.
func (g *gen[V]) All() iter.Seq[V] {
	return func(yield func(V) bool) {
		for g.MoveNext() {
			if !yield(g.Current()) {
				return
			}
		}
	}
}

// Stop unwinds a suspended coroutine (harness housekeeping after a run; muted).
func (g *gen[V]) Stop() {
	if g.started && !g.done {
		g.done = true
		g.stop()
	}
}

// Yield suspends the generator until the next MoveNext.
func (y *Y[V]) Yield(v V) {
	if !y.yield(v) {
		panic(stopped{})
	}
}

// From delegates: every remaining element of it, one per consumer step.
func (y *Y[V]) From(it Iter[V]) {
	for it.MoveNext() {
		y.Yield(it.Current())
	}
}
