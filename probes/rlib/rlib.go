// Package rlib is the run driver of the diff-trace engine. One process links
// the compiled (C), stage-1 (S) and reference (R) variants of every program,
// enumerates decision tapes (depth-first over the bits the reference run
// actually asked for) and consumer histories, and compares the event traces
// in-process. Only summaries and first divergences leave the process.
package rlib

import (
	"encoding/json"
	"flag"
	"fmt"
	"os"
	"runtime"
	"sort"
	"strings"
	"sync/atomic"
	"time"

	co "github.com/goghcrow/go-co"
	"scratch/drv"
	"scratch/tr"
)

type entry struct{ C, S, R, N func() }

var entries = map[string]*entry{}

// Add registers the variants of one package.
func Add(c, s, r, n map[string]func()) {
	for name, f := range c {
		e := &entry{C: f}
		if s != nil {
			e.S = s[name]
		}
		if r != nil {
			e.R = r[name]
		}
		if n != nil {
			e.N = n[name]
		}
		entries[name] = e
	}
}

type job struct {
	Name      string `json:"name"`
	MaxTape   int    `json:"max_tape"`
	MaxPaths  int    `json:"max_paths"`
	Hist      []int  `json:"hist"`
	HistPaths int    `json:"hist_paths"`
	Budget    int    `json:"budget"`
	NoRef     bool   `json:"no_ref"`
	MapOrder  bool   `json:"map_order"`
	Native    bool   `json:"native"`
	MaxMoves  int    `json:"max_moves"`
}

type diff struct {
	Kind  string   `json:"kind"`
	Tape  string   `json:"tape"`
	K     int      `json:"k"`
	At    int      `json:"at"`
	A     []string `json:"a"`
	B     []string `json:"b"`
	WantA string   `json:"want"`
	GotB  string   `json:"got"`
	Count int      `json:"count"`
}

type summary struct {
	Name       string   `json:"name"`
	Paths      int      `json:"paths"`
	PathsCut   bool     `json:"paths_cut"`
	Runs       int      `json:"runs"`
	Events     int      `json:"events"`
	MaxYields  int      `json:"max_yields"`
	MaxTrace   int      `json:"max_trace"`
	BudgetRuns int      `json:"budget_runs"`
	PanicRuns  int      `json:"panic_runs"`
	Diffs      []*diff  `json:"diffs"`
	Sample     []string `json:"sample"`
	SampleTape string   `json:"sample_tape"`
	Tapes      []string `json:"tapes"`
	Harness    []string `json:"harness"`
}

type runOut struct {
	ev       []string
	consumed int
	budget   bool
	escaped  string // a panic that escaped the entry function (not via a consumer call)
	poststop int    // events logged after the entry returned
}

// exec runs one variant under one tape and history.
func exec(f func(), tape []bool, j *job, k int) (o runOut) {
	tr.Reset(tape, j.MaxTape, j.Budget)
	drv.K = k
	drv.MaxMoves = 12
	if j.MaxMoves > 0 {
		drv.MaxMoves = j.MaxMoves
	}
	func() {
		defer func() {
			if p := recover(); p != nil {
				if _, ok := p.(tr.BudgetExceeded); ok {
					return
				}
				o.escaped = fmt.Sprint(p)
			}
		}()
		f()
	}()
	n := tr.Len()
	for i := 0; i < 8; i++ {
		runtime.Gosched()
	}
	o.poststop = tr.Len() - n
	o.ev = tr.Events()
	o.consumed = tr.Consumed()
	o.budget = tr.Exceeded()
	drv.Cleanup()
	return
}

func tapeStr(t []bool) string {
	var b strings.Builder
	for _, x := range t {
		if x {
			b.WriteByte('1')
		} else {
			b.WriteByte('0')
		}
	}
	return b.String()
}

func isValueEvent(s string) bool {
	return strings.HasPrefix(s, "M<") || strings.HasPrefix(s, "C=") || s == "RESURRECTED"
}

func values(ev []string) []string {
	var out []string
	for _, e := range ev {
		if isValueEvent(e) {
			out = append(out, e)
		}
	}
	return out
}

func at(xs []string, i int) string {
	if i < len(xs) {
		return xs[i]
	}
	return "<end>"
}

func firstDiff(a, b []string) int {
	for i := 0; i < len(a) || i < len(b); i++ {
		if at(a, i) != at(b, i) {
			return i
		}
	}
	return -1
}

func window(xs []string, i int) []string {
	lo, hi := i-12, i+6
	if lo < 0 {
		lo = 0
	}
	if hi > len(xs) {
		hi = len(xs)
	}
	out := append([]string{}, xs[lo:hi]...)
	if lo > 0 {
		out = append([]string{fmt.Sprintf("…(%d earlier events)", lo)}, out...)
	}
	if hi < len(xs) {
		out = append(out, fmt.Sprintf("…(%d more)", len(xs)-hi))
	}
	return out
}

func (s *summary) addDiff(kind string, tape []bool, k int, a, b []string) {
	i := firstDiff(a, b)
	if i < 0 {
		return
	}
	for _, d := range s.Diffs {
		if d.Kind == kind {
			d.Count++
			return
		}
	}
	s.Diffs = append(s.Diffs, &diff{Kind: kind, Tape: tapeStr(tape), K: k, At: i, A: window(a, i), B: window(b, i), WantA: at(a, i), GotB: at(b, i), Count: 1})
}

func sorted(xs []string) []string {
	out := append([]string{}, xs...)
	sort.Strings(out)
	return out
}

func hasPrefixEvent(ev []string, p string) bool {
	for _, e := range ev {
		if strings.HasPrefix(e, p) {
			return true
		}
	}
	return false
}

func runJob(j *job) *summary {
	s := &summary{Name: j.Name}
	e := entries[j.Name]
	if e == nil {
		s.Harness = append(s.Harness, "no such entry")
		return s
	}
	refF, refKind := e.R, "CR"
	if j.Native {
		refF, refKind = e.N, "NC"
		if refF == nil {
			s.Harness = append(s.Harness, "native source variant not linked")
			return s
		}
	} else if j.NoRef {
		refF = nil
	}
	tape := []bool{}
	for {
		hist := []int{-1}
		drv.NoExtraCur = j.MapOrder
		if s.Paths < j.HistPaths && !j.MapOrder {
			hist = append(hist, j.Hist...)
		}
		var consumed int
		for hi, k := range hist {
			var r, c, st runOut
			if refF != nil {
				r = exec(refF, tape, j, k)
				if hasPrefixEvent(r.ev, "STUB-") && !j.Native {
					s.Harness = append(s.Harness, "untransformed yield in reference")
				}
			}
			c = exec(e.C, tape, j, k)
			if e.S != nil {
				st = exec(e.S, tape, j, k)
			}
			s.Runs++
			s.Events += len(c.ev)
			if len(c.ev) > s.MaxTrace {
				s.MaxTrace = len(c.ev)
			}
			if c.budget || r.budget || st.budget {
				s.BudgetRuns++
			}
			if hasPrefixEvent(c.ev, "M<panic") {
				s.PanicRuns++
			}
			if hi == 0 {
				consumed = r.consumed
				if refF == nil {
					consumed = c.consumed
				}
				y := 0
				ref := r.ev
				if refF == nil {
					ref = c.ev
				}
				for _, x := range ref {
					if x == "M<true" {
						y++
					}
				}
				if y > s.MaxYields {
					s.MaxYields = y
				}
				if len(s.Tapes) < 64 {
					s.Tapes = append(s.Tapes, tapeStr(tape))
				}
				if s.Sample == nil || (len(ref) > len(s.Sample) && len(ref) <= 80) {
					s.Sample = ref
					s.SampleTape = tapeStr(tape)
				}
			}
			cmpA, cmpC, cmpS := r.ev, c.ev, st.ev
			if j.MapOrder {
				cmpA, cmpC, cmpS = sorted(cmpA), sorted(cmpC), sorted(cmpS)
			}
			if refF != nil {
				s.addDiff(refKind+"-full", tape, k, cmpA, cmpC)
				s.addDiff(refKind+"-values", tape, k, values(cmpA), values(cmpC))
				if c.escaped != r.escaped {
					s.addDiff(refKind+"-full", tape, k, []string{"<entry: " + r.escaped + ">"}, []string{"<entry: " + c.escaped + ">"})
				}
			}
			if e.S != nil && st.escaped != c.escaped {
				s.addDiff("SC-full", tape, k, []string{"<entry: " + st.escaped + ">"}, []string{"<entry: " + c.escaped + ">"})
			}
			if e.S != nil {
				s.addDiff("SC-full", tape, k, cmpS, cmpC)
			}
			if hasPrefixEvent(c.ev, "STUB-") {
				s.addDiff("STUB", tape, k, []string{"<no stub call>"}, c.ev)
			}
			if c.poststop != 0 {
				s.addDiff("POSTSTOP", tape, k, []string{"0 events after stop"}, []string{fmt.Sprintf("%d events after stop", c.poststop)})
			}
		}
		s.Paths++
		if s.Paths >= j.MaxPaths {
			s.PathsCut = true
			break
		}
		// next tape: depth-first successor over the bits the base run asked for
		full := make([]bool, consumed)
		copy(full, tape)
		i := len(full) - 1
		for i >= 0 && full[i] {
			i--
		}
		if i < 0 {
			break
		}
		tape = append(full[:i:i], true)
	}
	return s
}

// Main runs the job list.
func Main() {
	jobsFile := flag.String("jobs", "", "")
	outFile := flag.String("out", "", "")
	crumb := flag.String("crumb", "", "")
	flag.Parse()
	co.Trap = func(what string) { tr.Log("STUB-" + what) }
	bs, err := os.ReadFile(*jobsFile)
	if err != nil {
		fmt.Fprintln(os.Stderr, err)
		os.Exit(2)
	}
	var jobs []job
	if err := json.Unmarshal(bs, &jobs); err != nil {
		fmt.Fprintln(os.Stderr, err)
		os.Exit(2)
	}
	out, err := os.Create(*outFile)
	if err != nil {
		fmt.Fprintln(os.Stderr, err)
		os.Exit(2)
	}
	// wall-clock watchdog per job: a program that makes no progress for a long time is
	// reported as hung (inconclusive, never a verdict) and the process exits with status 7
	var cur atomic.Int64
	cur.Store(-1)
	go func() {
		last, since := int64(-2), time.Now()
		for {
			time.Sleep(500 * time.Millisecond)
			c := cur.Load()
			if c != last {
				last, since = c, time.Now()
				continue
			}
			if c >= 0 && time.Since(since) > 60*time.Second {
				fmt.Println("HUNG:" + jobs[c].Name)
				os.Exit(7)
			}
		}
	}()
	for i := range jobs {
		cur.Store(int64(i))
		os.WriteFile(*crumb, []byte(jobs[i].Name), 0o644)
		s := runJob(&jobs[i])
		line, _ := json.Marshal(s)
		out.Write(append(line, '\n'))
	}
	os.WriteFile(*crumb, []byte(""), 0o644)
	out.Close()
}
