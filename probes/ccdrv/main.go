// ccdrv is the stand-alone compile driver: it runs the real rewriter.Compile /
// rewriter.GoGen from a normal binary (not a test binary, so the production
// code path with the unique-name counter, source comments and temp-dir removal
// is the one exercised). A compiler rejection is a Go panic; it is recovered per
// job and reported as "PANIC:<src>:<message>"; success as "OK:<src>".
//
//	ccdrv compile <src>:<dst>[:<stage1-snapshot-dir>] ...
//	ccdrv gogen <dir>
package main

import (
	"fmt"
	"os"
	"strings"

	"github.com/goghcrow/go-co/rewriter"
	"github.com/goghcrow/go-loader"
)

func guarded(src string, f func()) {
	defer func() {
		if r := recover(); r != nil {
			msg := strings.ReplaceAll(fmt.Sprint(r), "\n", "\\n")
			fmt.Printf("PANIC:%s:%s\n", src, msg)
		}
	}()
	f()
	fmt.Printf("OK:%s\n", src)
}

func main() {
	if len(os.Args) < 3 {
		fmt.Fprintln(os.Stderr, "usage: ccdrv compile <src>:<dst>[:<s1>]... | ccdrv gogen <dir>")
		os.Exit(2)
	}
	switch os.Args[1] {
	case "compile":
		for _, job := range os.Args[2:] {
			parts := strings.Split(job, ":")
			if len(parts) < 2 {
				os.Exit(2)
			}
			os.Unsetenv("COVERIF_STAGE1_DIR")
			if len(parts) >= 3 {
				os.Setenv("COVERIF_STAGE1_DIR", parts[2])
			}
			guarded(parts[0], func() {
				rewriter.Compile(parts[0], parts[1], loader.WithLoadTest())
			})
		}
	case "gogen":
		guarded(os.Args[2], func() { rewriter.GoGen(os.Args[2]) })
	default:
		os.Exit(2)
	}
}
