// ccdrv is the stand-alone compile driver: it runs the real rewriter.Compile /
// rewriter.GoGen from a normal binary (not a test binary, so the production
// code path with the unique-name counter, source comments and temp-dir removal
// is the one exercised). A compiler rejection is a Go panic; it is recovered per
// job and reported as "PANIC:<src>:<message>"; success as "OK:<src>".
//
//	ccdrv compile <src>:<dst>[:<stage1-snapshot-dir>] ...
//	ccdrv gogen <dir>
package main

import (
	"fmt"
	"os"
	"path/filepath"
	"strings"

	"github.com/goghcrow/go-co/rewriter"
	"github.com/goghcrow/go-loader"
)

func guarded(src string, f func()) {
	defer func() {
		if r := recover(); r != nil {
			msg := strings.ReplaceAll(fmt.Sprint(r), "\n", "\\n")
			fmt.Printf("PANIC:%s:%s\n", src, msg)
		}
	}()
	f()
	fmt.Printf("OK:%s\n", src)
}

func main() {
	if len(os.Args) < 3 {
		fmt.Fprintln(os.Stderr, "usage: ccdrv compile <src>:<dst>[:<s1>]... | ccdrv gogen <dir>")
		os.Exit(2)
	}
	switch os.Args[1] {
	case "compile":
		for _, job := range os.Args[2:] {
			if strings.HasPrefix(job, "gogen=") {
				// the same package through the go:generate entry point: gogen=<src>:<dst>:<work>[:<s1>]
				parts := strings.Split(strings.TrimPrefix(job, "gogen="), ":")
				if len(parts) < 3 {
					os.Exit(2)
				}
				os.Unsetenv("COVERIF_STAGE1_DIR")
				if len(parts) >= 4 {
					os.Setenv("COVERIF_STAGE1_DIR", parts[3])
				}
				custom := strings.HasPrefix(job, "gogen=") && strings.HasSuffix(parts[2], "-opt")
				guarded(parts[0], func() { viaGoGen(parts[0], parts[1], parts[2], custom) })
				continue
			}
			parts := strings.Split(job, ":")
			if len(parts) < 2 {
				os.Exit(2)
			}
			os.Unsetenv("COVERIF_STAGE1_DIR")
			if len(parts) >= 3 {
				os.Setenv("COVERIF_STAGE1_DIR", parts[2])
			}
			guarded(parts[0], func() {
				rewriter.Compile(parts[0], parts[1], loader.WithLoadTest())
			})
		}
	case "gogen":
		guarded(os.Args[2], func() { rewriter.GoGen(os.Args[2]) })
	default:
		os.Exit(2)
	}
}

// viaGoGen runs the package of src through rewriter.GoGen (what cmd/cogen does): the go-co files of src (they use
// the API) are copied to work as <name>_co.go under the build tag co, everything else as it is; GoGen derives
// <name>.go next to them; the derived files are copied to dst (where Compile would have written them).
//
// custom: the same through GoGen's OPTIONS (file suffix "gen", build tag "gen"): sources become <name>_gen.go under
// the tag gen, and every derived file must carry the constraint of THAT tag.
func viaGoGen(src, dst, work string, custom bool) {
	suffix, tag := "co", "co"
	var opts []rewriter.Option
	if custom {
		suffix, tag = "gen", "gen"
		opts = []rewriter.Option{rewriter.WithFileSuffix(suffix), rewriter.WithBuildTag(tag)}
	}
	must := func(err error) {
		if err != nil {
			panic(err)
		}
	}
	must(os.RemoveAll(work))
	must(os.MkdirAll(work, 0o755))
	must(os.MkdirAll(dst, 0o755))
	ents, err := os.ReadDir(src)
	must(err)
	var derived []string
	for _, e := range ents {
		if e.IsDir() {
			continue
		}
		bs, err := os.ReadFile(filepath.Join(src, e.Name()))
		must(err)
		name := e.Name()
		if strings.HasSuffix(name, ".go") && strings.Contains(string(bs), "github.com/goghcrow/go-co\"") {
			derived = append(derived, name)
			name = strings.TrimSuffix(name, ".go") + "_" + suffix + ".go"
			bs = append([]byte("//go:build "+tag+"\n\n"), bs...)
		}
		must(os.WriteFile(filepath.Join(work, name), bs, 0o644))
	}
	rewriter.GoGen(work, opts...)
	for _, name := range derived {
		bs, err := os.ReadFile(filepath.Join(work, name))
		if os.IsNotExist(err) {
			panic("GOGEN-NO-OUTPUT: GoGen returned normally but did not derive " + name + " from " + strings.TrimSuffix(name, ".go") + "_" + suffix + ".go")
		}
		must(err)
		if !strings.HasPrefix(string(bs), "//go:build !"+tag+"\n\n") {
			panic("GOGEN-HEADER: the derived file " + name + " does not start with the constraint '//go:build !" + tag + "' of the build tag the tool was run with: " + strings.SplitN(string(bs), "\n", 2)[0])
		}
		must(os.WriteFile(filepath.Join(dst, name), bs, 0o644))
	}
	left, _ := filepath.Glob(filepath.Join(work, "_co_tmp*"))
	if len(left) > 0 {
		panic("GoGen left its temp dir behind: " + left[0])
	}
}
