// Probe for C10: the built-in range iterators of seq vs Go's native range over
// the same value in the same process. The iterator is driven with the exact
// protocol the compiler emits:
//
//	it := seq.NewXxxIter(x); for it.MoveNext() { k, v := it.Current().Key, it.Current().Val; body }
package main

import (
	"fmt"
	"math"
	"math/rand"
	"reflect"
	"runtime"
	"sort"
	"strings"

	"github.com/goghcrow/go-co/seq"
	"scratch/plib"
)

var res = plib.New()

func only(id string) bool { return plib.Only == "" || plib.Only == id }

// safe runs f and converts a panic into a string.
func safe(f func()) (p string) {
	defer func() {
		if r := recover(); r != nil {
			p = fmt.Sprint(r)
			if e, ok := r.(runtime.Error); ok {
				p = e.Error()
			}
		}
	}()
	f()
	return ""
}

// ---------------------------------------------------------------- strings

type ir struct {
	I int
	R rune
}

func nativeString(s string) (out []ir) {
	for i, r := range s {
		out = append(out, ir{i, r})
	}
	return
}

func iterString(s string) (out []ir, keysOnly []int) {
	it := seq.NewStringIter(s)
	for it.MoveNext() {
		k, v := it.Current().Key, it.Current().Val
		out = append(out, ir{k, v})
	}
	it2 := seq.NewStringIter(s)
	for it2.MoveNext() {
		k := it2.Current().Key
		keysOnly = append(keysOnly, k)
	}
	return
}

func checkString(s string) {
	id := fmt.Sprintf("string:%q", s)
	if !only(id) {
		return
	}
	res.Eval(1)
	want := nativeString(s)
	var got []ir
	var keys []int
	p := safe(func() { got, keys = iterString(s) })
	nontrivial := false
	for i := 0; i < len(s); i++ {
		if s[i] >= 0x80 {
			nontrivial = true
		}
	}
	if nontrivial {
		res.DistinctKey(id)
	}
	if len(res.Samples) < 2 && nontrivial && len(s) >= 3 {
		res.Sample(map[string]any{"kind": "string", "input": fmt.Sprintf("%q", s), "native": fmt.Sprint(want), "iterator": fmt.Sprint(got)})
	}
	ok := p == "" && reflect.DeepEqual(want, got) && len(keys) == len(want)
	if ok {
		for i := range keys {
			if keys[i] != want[i].I {
				ok = false
			}
		}
	}
	if !ok {
		res.Violate(id, "string-pairs", fmt.Sprintf("range over %q: native %v, NewStringIter %v (keys %v) panic=%q", s, want, got, keys, p),
			map[string]any{"probe": "itermodel", "only": id})
	}
}

var alphabet = []byte{'a', 'z', 0xC3, 0xA9, 0xE2, 0x82, 0xAC, 0xF0, 0x9F, 0xFF}

// boundary bytes of the UTF-8 encoding: every one of them appears at every position of short strings
var boundary = []byte{0x00, 0x7F, 0x80, 0x81, 0xBF, 0xC0, 0xC1, 0xC2, 0xDF, 0xE0, 0xED, 0xEF, 0xF0, 0xF4, 0xF5, 0xFE, 0xFF, 0xA0, 0x90, 0x8F, 0x9F, 0xBD, 0xBE}

// valid runes at the edges of the encoding classes, incl. U+FFFD itself (a VALID three-byte rune that decodes to
// the very value used for errors), the surrogate neighbours and the largest rune
var edgeRunes = []string{"\u0000", "\u007f", "\u0080", "\u07ff", "\u0800", "\ud7ff", "\ue000", "\ufffd", "\ufffe", "\uffff", "\U00010000", "\U0010ffff"}

func boundaryStrings() {
	// all strings of length <= 2 over ALL 256 byte values
	for a := 0; a < 256; a++ {
		checkString(string([]byte{byte(a)}))
		for b := 0; b < 256; b++ {
			checkString(string([]byte{byte(a), byte(b)}))
			res.Count("strings_all_bytes_len2", 1)
		}
	}
	// valid edge runes: alone, between ASCII, pairwise concatenated, followed by every boundary byte
	for _, r := range edgeRunes {
		checkString(r)
		checkString("a" + r + "b")
		for _, q := range edgeRunes {
			checkString(r + q)
			checkString("x" + r + q + r)
			res.Count("strings_edge_runes", 2)
		}
		for _, b := range boundary {
			checkString(r + string([]byte{b}))
			checkString(string([]byte{b}) + r + string([]byte{b}))
		}
	}
	// all strings of length 3 and 4 over the boundary bytes, embedded between ASCII
	for _, a := range boundary {
		for _, b := range boundary {
			for _, c := range boundary {
				checkString(string([]byte{a, b, c}))
				checkString(string([]byte{'x', a, b, c, 'y'}))
				res.Count("strings_boundary_len3", 2)
			}
		}
	}
}

func allStrings(maxLen int) {
	buf := make([]byte, 0, maxLen)
	var rec func(n int)
	rec = func(n int) {
		checkString(string(buf))
		res.Count("strings_exhaustive", 1)
		if n == maxLen {
			return
		}
		for _, b := range alphabet {
			buf = append(buf, b)
			rec(n + 1)
			buf = buf[:len(buf)-1]
		}
	}
	rec(0)
}

func randomStrings(rng *rand.Rand, n int) {
	pieces := []string{"a", "é", "€", "😀", "\xff", "\xc3", "\xe2\x82", "\xf0\x9f\x98", "\x80", "\xed\xa0\x80", "\xc0\x80", "\xf4\x90\x80\x80", "日本", "\x00", "\xef\xbf\xbd"}
	for i := 0; i < n; i++ {
		var sb strings.Builder
		l := rng.Intn(40)
		for j := 0; j < l; j++ {
			if rng.Intn(4) == 0 {
				sb.WriteByte(byte(rng.Intn(256)))
			} else {
				sb.WriteString(pieces[rng.Intn(len(pieces))])
			}
		}
		checkString(sb.String())
		res.Count("strings_random", 1)
	}
}

// ---------------------------------------------------------------- integers

func checkInt(n int) {
	id := fmt.Sprintf("int:%d", n)
	if !only(id) {
		return
	}
	res.Eval(1)
	var want, got []int
	for i := range n {
		want = append(want, i)
	}
	p := safe(func() {
		it := seq.NewIntegerIter(n)
		for it.MoveNext() {
			k := it.Current().Key
			got = append(got, k)
			if len(got) > len(want)+4 {
				break
			}
		}
	})
	// the no-variable form: for range n
	cnt := 0
	p2 := safe(func() {
		it := seq.NewIntegerIter(n)
		for it.MoveNext() {
			cnt++
			if cnt > len(want)+4 {
				break
			}
		}
	})
	if n != 0 {
		res.DistinctKey(id)
	}
	res.Count("ints", 1)
	if p != "" || p2 != "" || !reflect.DeepEqual(want, got) || cnt != len(want) {
		res.Violate(id, "int-keys", fmt.Sprintf("range %d: native %v, NewIntegerIter %v (count %d) panic=%q%q", n, want, got, cnt, p, p2),
			map[string]any{"probe": "itermodel", "only": id})
	}
}

// typed integer ranges: every int8 / uint8 value (incl. the maximum of the type), selected uint16 / int16
// values, and huge 64-bit bounds of which only a prefix is consumed
func typedInt[T interface {
	~int8 | ~uint8 | ~int16 | ~uint16 | ~int32 | ~uint32 | ~int64 | ~uint64 | ~uint | ~uintptr | ~int
}](name string, n T, maxPulls int) {
	id := fmt.Sprintf("tint:%s:%v", name, n)
	if !only(id) {
		return
	}
	res.Eval(1)
	var want, got []T
	cnt := 0
	// Go's `for i := range n` over an integer n: i = 0 .. n-1 in the type of n, nothing for n <= 0
	// (a generic function cannot range over a type parameter without core type, so it is spelled out)
	for i := T(0); i < n; i++ {
		want = append(want, i)
		cnt++
		if cnt >= maxPulls {
			break
		}
	}
	p := safe(func() {
		it := seq.NewIntegerIter(n)
		pulls := 0
		for it.MoveNext() {
			got = append(got, it.Current().Key)
			pulls++
			if pulls >= maxPulls {
				break
			}
		}
		if pulls < maxPulls && len(want) >= maxPulls {
			got = append(got, 0) // ended early
		}
	})
	res.DistinctKey(id)
	res.Count("typed_ints", 1)
	if p != "" || fmt.Sprint(want) != fmt.Sprint(got) {
		w, g := fmt.Sprint(want), fmt.Sprint(got)
		if len(w) > 120 {
			w = w[:60] + " … " + w[len(w)-50:]
		}
		if len(g) > 120 {
			g = g[:60] + " … " + g[len(g)-50:]
		}
		res.Violate(id, "typed-int-keys", fmt.Sprintf("range %s(%v) (first %d pulls): native %d keys %s, NewIntegerIter %d keys %s panic=%q", name, n, maxPulls, len(want), w, len(got), g, p), map[string]any{"probe": "itermodel", "only": id})
	}
}

func typedInts() {
	for v := -128; v <= 127; v++ {
		typedInt("int8", int8(v), 1000)
	}
	for v := 0; v <= 255; v++ {
		typedInt("uint8", uint8(v), 1000)
	}
	for _, v := range []int{0, 1, 255, 256, 32767} {
		typedInt("int16", int16(v), 40000)
	}
	for _, v := range []int{0, 1, 32768, 65534, 65535} {
		typedInt("uint16", uint16(v), 70000)
	}
	type myInt int32
	typedInt("myInt", myInt(5), 100)
	// huge bounds: only a prefix is consumed (the loop is left by break)
	typedInt("int64", int64(math.MaxInt64), 5)
	typedInt("uint64", uint64(math.MaxUint64), 5)
	typedInt("uint64", uint64(1)<<63, 5)
	typedInt("uint64", uint64(1)<<63-1, 5)
	typedInt("uint", uint(math.MaxUint), 5)
	typedInt("uintptr", ^uintptr(0), 5)
	typedInt("uint32", uint32(math.MaxUint32), 5)
	typedInt("int32", int32(math.MinInt32), 5)
	typedInt("int64", int64(math.MinInt64), 5)
}

// ---------------------------------------------------------------- slices

// a mutation script step, applied after the body observed (k,v) at iteration number At
type mut struct {
	At   int    // iteration count (0-based) after which it is applied
	Kind string // set | append | reslice | nil | grow
	J, X int
}

func applyMut(ms []mut, cnt int, s *[]int) {
	for _, m := range ms {
		if m.At != cnt {
			continue
		}
		switch m.Kind {
		case "set":
			if m.J < len(*s) {
				(*s)[m.J] = m.X
			}
		case "append":
			*s = append(*s, m.X)
		case "reslice":
			if m.J <= len(*s) {
				*s = (*s)[:m.J]
			}
		case "nil":
			*s = nil
		case "grow": // forces reallocation, then writes to the NEW backing array
			ns := make([]int, len(*s), 2*len(*s)+4)
			copy(ns, *s)
			*s = ns
			if m.J < len(*s) {
				(*s)[m.J] = m.X
			}
		}
	}
}

type iv struct{ I, V int }

func checkSlice(input []int, isNil bool, ms []mut) {
	id := fmt.Sprintf("slice:%v:nil=%v:%v", input, isNil, ms)
	if !only(id) {
		return
	}
	res.Eval(1)
	mk := func() []int {
		if isNil {
			return nil
		}
		// spare capacity so that append writes in place (visible through the snapshot)
		s := make([]int, len(input), len(input)+2)
		copy(s, input)
		return s
	}
	var want, got []iv
	{
		s := mk()
		cnt := 0
		for i, v := range s {
			want = append(want, iv{i, v})
			applyMut(ms, cnt, &s)
			cnt++
		}
	}
	p := safe(func() {
		s := mk()
		cnt := 0
		it := seq.NewSliceIter(s)
		for it.MoveNext() {
			i, v := it.Current().Key, it.Current().Val
			got = append(got, iv{i, v})
			applyMut(ms, cnt, &s)
			cnt++
		}
	})
	if len(ms) > 0 && len(input) > 1 {
		res.DistinctKey(id)
	}
	res.Count("slices", 1)
	if len(res.Samples) < 4 && len(ms) > 0 && len(input) == 3 && ms[0].Kind == "set" && ms[0].J == 2 && ms[0].At == 0 {
		res.Sample(map[string]any{"kind": "slice", "input": fmt.Sprint(input), "script": fmt.Sprint(ms), "native": fmt.Sprint(want), "iterator": fmt.Sprint(got)})
	}
	if p != "" || !reflect.DeepEqual(want, got) {
		res.Violate(id, "slice-pairs", fmt.Sprintf("range over %v with script %v: native %v, NewSliceIter %v panic=%q", input, ms, want, got, p),
			map[string]any{"probe": "itermodel", "only": id})
	}
}

func allSlices(maxLen int) {
	for l := 0; l <= maxLen; l++ {
		input := make([]int, l)
		for i := range input {
			input[i] = 10 + i
		}
		checkSlice(input, false, nil)
		if l == 0 {
			checkSlice(input, true, nil)
			checkSlice(input, true, []mut{{0, "append", 0, 7}})
		}
		kinds := []string{"set", "append", "reslice", "nil", "grow"}
		for at := 0; at < l; at++ {
			for _, k := range kinds {
				switch k {
				case "set", "grow":
					for j := 0; j < l; j++ {
						checkSlice(input, false, []mut{{at, k, j, 99}})
					}
				case "reslice":
					for j := 0; j <= l; j++ {
						checkSlice(input, false, []mut{{at, k, j, 0}})
					}
				default:
					checkSlice(input, false, []mut{{at, k, 0, 77}})
				}
			}
			// two-step scripts: append then set the appended/in-range element
			for j := 0; j < l; j++ {
				checkSlice(input, false, []mut{{at, "append", 0, 55}, {at, "set", j, 66}})
				checkSlice(input, false, []mut{{at, "reslice", 1, 0}, {at, "append", 0, 44}})
			}
		}
	}
}

// generic element types: strings, interfaces holding nil, structs
func sliceOther() {
	id := "slice:any-nil-elems"
	if only(id) {
		res.Eval(1)
		in := []any{nil, 1, nil, "x"}
		var want, got []string
		for i, v := range in {
			want = append(want, fmt.Sprint(i, v))
		}
		p := safe(func() {
			it := seq.NewSliceIter(in)
			for it.MoveNext() {
				i, v := it.Current().Key, it.Current().Val
				got = append(got, fmt.Sprint(i, v))
			}
		})
		res.DistinctKey(id)
		if p != "" || !reflect.DeepEqual(want, got) {
			res.Violate(id, "slice-pairs", fmt.Sprintf("[]any with nil elements: native %v iterator %v panic=%q", want, got, p), map[string]any{"probe": "itermodel", "only": id})
		}
	}
}

// ---------------------------------------------------------------- maps

type mapStep struct {
	At   int
	Kind string // del | ins | upd
	K, V int
}

func checkMap(keys []int, script []mapStep) {
	id := fmt.Sprintf("map:%v:%v", keys, script)
	if !only(id) {
		return
	}
	res.Eval(1)
	m := map[int]int{}
	for _, k := range keys {
		m[k] = 100 + k
	}
	orig := map[int]bool{}
	for _, k := range keys {
		orig[k] = true
	}
	deleted := map[int]bool{}
	inserted := map[int]bool{}
	visited := map[int]int{}
	var problems []string
	cnt := 0
	p := safe(func() {
		it := seq.NewMapIter(m)
		for it.MoveNext() {
			k, v := it.Current().Key, it.Current().Val
			cur, present := m[k]
			if !present {
				problems = append(problems, fmt.Sprintf("visited key %d that is not in the map (deleted before being reached)", k))
			} else if cur != v {
				problems = append(problems, fmt.Sprintf("key %d: value %d but map holds %d", k, v, cur))
			}
			visited[k]++
			if visited[k] > 1 && !deleted[k] {
				problems = append(problems, fmt.Sprintf("key %d visited %d times", k, visited[k]))
			}
			for _, st := range script {
				if st.At != cnt {
					continue
				}
				switch st.Kind {
				case "del":
					if _, ok := m[st.K]; ok {
						delete(m, st.K)
						deleted[st.K] = true
					}
				case "ins":
					if _, ok := m[st.K]; !ok && !orig[st.K] {
						m[st.K] = st.V
						inserted[st.K] = true
					}
				case "upd":
					if _, ok := m[st.K]; ok {
						m[st.K] = st.V
					}
				}
			}
			cnt++
			if cnt > len(keys)+len(script)+8 {
				problems = append(problems, "iteration does not terminate")
				break
			}
		}
	})
	for _, k := range keys {
		if !deleted[k] && visited[k] != 1 {
			problems = append(problems, fmt.Sprintf("key %d (never deleted) visited %d times", k, visited[k]))
		}
	}
	for k := range visited {
		if !orig[k] && !inserted[k] {
			problems = append(problems, fmt.Sprintf("key %d was never in the map", k))
		}
	}
	if len(keys) >= 2 {
		res.DistinctKey(id)
	}
	res.Count("maps", 1)
	if p != "" || len(problems) > 0 {
		res.Violate(id, "map-invariant", fmt.Sprintf("map keys %v script %v: %v panic=%q", keys, script, problems, p),
			map[string]any{"probe": "itermodel", "only": id})
	}
}

func allMaps(maxKeys int, rng *rand.Rand, extra int) {
	for n := 0; n <= maxKeys; n++ {
		keys := make([]int, n)
		for i := range keys {
			keys[i] = i
		}
		checkMap(keys, nil)
		for at := 0; at < n; at++ {
			for k := 0; k < n; k++ {
				checkMap(keys, []mapStep{{at, "del", k, 0}})
				checkMap(keys, []mapStep{{at, "upd", k, 7}})
				for k2 := k + 1; k2 < n; k2++ {
					checkMap(keys, []mapStep{{at, "del", k, 0}, {at, "del", k2, 0}})
				}
			}
			checkMap(keys, []mapStep{{at, "ins", 50, 1}})
			checkMap(keys, []mapStep{{at, "ins", 50, 1}, {at, "ins", 51, 1}, {at, "del", 0, 0}})
		}
	}
	// larger maps (force several buckets / growth) with random scripts
	for i := 0; i < extra; i++ {
		n := 8 + rng.Intn(60)
		keys := make([]int, n)
		for j := range keys {
			keys[j] = j
		}
		var script []mapStep
		for j := 0; j < rng.Intn(12); j++ {
			kind := []string{"del", "ins", "upd"}[rng.Intn(3)]
			k := rng.Intn(n)
			if kind == "ins" {
				k = 1000 + rng.Intn(200)
			}
			script = append(script, mapStep{rng.Intn(n), kind, k, rng.Intn(9)})
		}
		checkMap(keys, script)
	}
}

// multiset equality with the native range for unmutated maps of assorted types,
// including nil interface keys and values and NaN keys.
func mapTypes() {
	chk := func(id string, want, got []string, p string) {
		res.Eval(1)
		res.DistinctKey(id)
		sort.Strings(want)
		sort.Strings(got)
		if p != "" || !reflect.DeepEqual(want, got) {
			res.Violate(id, "map-multiset", fmt.Sprintf("%s: native %v iterator %v panic=%q", id, want, got, p), map[string]any{"probe": "itermodel", "only": id})
		}
		if id == "map:any-nil-value" {
			res.Sample(map[string]any{"kind": "map", "case": id, "native": fmt.Sprint(want), "iterator": fmt.Sprint(got), "panic": p})
		}
	}
	if id := "map:any-nil-value"; only(id) {
		m := map[string]any{"a": nil, "b": 1, "c": nil}
		var want, got []string
		for k, v := range m {
			want = append(want, fmt.Sprint(k, "=", v))
		}
		p := safe(func() {
			it := seq.NewMapIter(m)
			for it.MoveNext() {
				k, v := it.Current().Key, it.Current().Val
				got = append(got, fmt.Sprint(k, "=", v))
			}
		})
		chk(id, want, got, p)
	}
	if id := "map:any-nil-key"; only(id) {
		m := map[any]any{nil: 1, 2: nil, "x": "y"}
		var want, got []string
		for k, v := range m {
			want = append(want, fmt.Sprint(k, "=", v))
		}
		p := safe(func() {
			it := seq.NewMapIter(m)
			for it.MoveNext() {
				k, v := it.Current().Key, it.Current().Val
				got = append(got, fmt.Sprint(k, "=", v))
			}
		})
		chk(id, want, got, p)
	}
	if id := "map:error-nil-value"; only(id) {
		m := map[int]error{1: nil, 2: fmt.Errorf("e")}
		var want, got []string
		for k, v := range m {
			want = append(want, fmt.Sprint(k, "=", v))
		}
		p := safe(func() {
			it := seq.NewMapIter(m)
			for it.MoveNext() {
				k, v := it.Current().Key, it.Current().Val
				got = append(got, fmt.Sprint(k, "=", v))
			}
		})
		chk(id, want, got, p)
	}
	if id := "map:nan-keys"; only(id) {
		m := map[float64]int{}
		m[math.NaN()] = 1
		m[math.NaN()] = 2
		m[1.5] = 3
		var want, got []string
		for k, v := range m {
			want = append(want, fmt.Sprint(k, "=", v))
		}
		p := safe(func() {
			it := seq.NewMapIter(m)
			for it.MoveNext() {
				k, v := it.Current().Key, it.Current().Val
				got = append(got, fmt.Sprint(k, "=", v))
			}
		})
		chk(id, want, got, p)
	}
	if id := "map:nil-map"; only(id) {
		var m map[string]int
		var got []string
		p := safe(func() {
			it := seq.NewMapIter(m)
			for it.MoveNext() {
				k, v := it.Current().Key, it.Current().Val
				got = append(got, fmt.Sprint(k, "=", v))
			}
		})
		chk(id, nil, got, p)
	}
	if id := "map:struct-keys-ptr-values"; only(id) {
		type K struct{ A, B int }
		x := 5
		m := map[K]*int{{1, 2}: &x, {3, 4}: nil}
		var want, got []string
		for k, v := range m {
			want = append(want, fmt.Sprint(k, "=", v == nil))
		}
		p := safe(func() {
			it := seq.NewMapIter(m)
			for it.MoveNext() {
				k, v := it.Current().Key, it.Current().Val
				got = append(got, fmt.Sprint(k, "=", v == nil))
			}
		})
		chk(id, want, got, p)
	}
	if id := "map:named-type"; only(id) {
		type M map[string][]int
		m := M{"a": nil, "b": {1}}
		var want, got []string
		for k, v := range m {
			want = append(want, fmt.Sprint(k, "=", v))
		}
		p := safe(func() {
			it := seq.NewMapIter(m)
			for it.MoveNext() {
				k, v := it.Current().Key, it.Current().Val
				got = append(got, fmt.Sprint(k, "=", v))
			}
		})
		chk(id, want, got, p)
	}
}

// ---------------------------------------------------------------- element / collection TYPES

type lang string
type kind8 int8
type point struct {
	X, Y int
	N    lang
}
type dict map[lang]kind8
type langs []lang
type feed <-chan lang
type pipe chan lang

func (l lang) String() string { return "lang:" + string(l) }

func cmpMap[M ~map[K]V, K comparable, V any](id string, m M) {
	if !only(id) {
		return
	}
	res.Eval(1)
	res.DistinctKey(id)
	var want, got []string
	for k, v := range m {
		want = append(want, fmt.Sprintf("%#v=%#v", k, v))
	}
	p := safe(func() {
		it := seq.NewMapIter(m)
		for it.MoveNext() {
			k, v := it.Current().Key, it.Current().Val
			got = append(got, fmt.Sprintf("%#v=%#v", k, v))
		}
	})
	sort.Strings(want)
	sort.Strings(got)
	if p != "" || !reflect.DeepEqual(want, got) {
		res.Violate(id, "typed-map-multiset", fmt.Sprintf("%s: native %v iterator %v panic=%q", id, want, got, p), map[string]any{"probe": "itermodel", "only": id})
	}
}

func cmpSlice[S ~[]E, E any](id string, s S) {
	if !only(id) {
		return
	}
	res.Eval(1)
	res.DistinctKey(id)
	var want, got []string
	for i, v := range s {
		want = append(want, fmt.Sprintf("%d=%#v", i, v))
	}
	p := safe(func() {
		it := seq.NewSliceIter(s)
		for it.MoveNext() {
			i, v := it.Current().Key, it.Current().Val
			got = append(got, fmt.Sprintf("%d=%#v", i, v))
		}
	})
	if p != "" || !reflect.DeepEqual(want, got) {
		res.Violate(id, "typed-slice-pairs", fmt.Sprintf("%s: native %v iterator %v panic=%q", id, want, got, p), map[string]any{"probe": "itermodel", "only": id})
	}
}

func cmpString[S ~string](id string, s S) {
	if !only(id) {
		return
	}
	res.Eval(1)
	res.DistinctKey(id)
	var want, got []string
	for i, r := range s {
		want = append(want, fmt.Sprintf("%d=%#v", i, r))
	}
	p := safe(func() {
		it := seq.NewStringIter(s)
		for it.MoveNext() {
			i, r := it.Current().Key, it.Current().Val
			got = append(got, fmt.Sprintf("%d=%#v", i, r))
		}
	})
	if p != "" || !reflect.DeepEqual(want, got) {
		res.Violate(id, "typed-string-pairs", fmt.Sprintf("%s: native %v iterator %v panic=%q", id, want, got, p), map[string]any{"probe": "itermodel", "only": id})
	}
}

func cmpChan[V any](id string, vals []V, iter func(ch chan V) []string) {
	if !only(id) {
		return
	}
	res.Eval(1)
	res.DistinctKey(id)
	var want []string
	for _, v := range vals {
		want = append(want, fmt.Sprintf("%#v", v))
	}
	ch := make(chan V, len(vals))
	for _, v := range vals {
		ch <- v
	}
	close(ch)
	var got []string
	p := safe(func() { got = iter(ch) })
	if p != "" || !reflect.DeepEqual(want, got) {
		res.Violate(id, "typed-chan-values", fmt.Sprintf("%s: sent %v iterator %v panic=%q", id, want, got, p), map[string]any{"probe": "itermodel", "only": id})
	}
}

// typedCollections: the iterators over defined collection types and over element types of every kind
// (the constructors are generic; whatever they special-case must agree with Go's range)
func typedCollections() {
	x, y := 1, 2
	f1, f2 := func() int { return 1 }, func() int { return 2 }
	c1 := make(chan int)
	cmpMap("tmap:defined-string-key", map[lang]int{"go": 2, "rust": 4, "": 0})
	cmpMap("tmap:defined-string-val", map[int]lang{1: "zig", 2: "", 3: "c"})
	cmpMap("tmap:defined-map-type", dict{"a": -1, "b": 127})
	cmpMap("tmap:defined-int8-key", map[kind8]kind8{-128: 127, 0: 0, 5: -5})
	cmpMap("tmap:bool-key-float32-val", map[bool]float32{true: 1.5, false: -0.0})
	cmpMap("tmap:complex-key", map[complex128]string{1 + 2i: "a", 0: "b"})
	cmpMap("tmap:array-key-struct-val", map[[2]int]point{{1, 2}: {3, 4, "n"}, {0, 0}: {}})
	cmpMap("tmap:struct-key-slice-val", map[point][]lang{{1, 2, "k"}: {"a", "b"}, {}: nil})
	cmpMap("tmap:pointer-key-func-val", map[*int]func() int{&x: f1, &y: f2, nil: nil})
	cmpMap("tmap:chan-key-map-val", map[chan int]map[lang]int{c1: {"a": 1}, nil: nil})
	cmpMap("tmap:stringer-key-error-val", map[fmt.Stringer]error{lang("a"): fmt.Errorf("e"), lang("b"): nil, nil: nil})
	cmpMap("tmap:any-key-holding-defined-strings", map[any]any{lang("x"): lang("y"), "x": "y", kind8(3): int8(3), nil: lang("")})
	cmpMap("tmap:string-key-empty", map[string]string{"": "", "a": ""})
	cmpMap("tmap:uint64-key-extremes", map[uint64]int64{0: -1 << 63, 1<<64 - 1: 1<<63 - 1})
	cmpSlice("tslice:defined-slice-type", langs{"a", "", "ccc"})
	cmpSlice("tslice:defined-string-elems", []lang{"x", "yy"})
	cmpSlice("tslice:struct-elems", []point{{1, 2, "a"}, {}})
	cmpSlice("tslice:pointer-elems", []*int{&x, nil, &y})
	cmpSlice("tslice:func-elems", []func() int{f1, nil, f2})
	cmpSlice("tslice:stringer-elems", []fmt.Stringer{lang("a"), nil, lang("")})
	cmpSlice("tslice:nested-slices", [][]lang{{"a"}, nil, {}})
	cmpSlice("tslice:array-elems", [][2]kind8{{1, -1}, {}})
	cmpSlice("tslice:bytes", []byte("h\xc3\xa9\xff"))
	cmpSlice("tslice:runes", []rune("h\u00e9\U0001F600"))
	cmpSlice("tslice:empty-non-nil", []lang{})
	cmpString("tstring:defined-type", lang("h\u00e9\xffy\u20ac"))
	cmpString("tstring:defined-type-empty", lang(""))
	cmpString("tstring:plain", "a\x80b\xc3")
	cmpChan("tchan:bidirectional-defined-elems", []lang{"a", "", "b"}, func(ch chan lang) (out []string) {
		it := seq.NewChanIter(ch)
		for it.MoveNext() {
			out = append(out, fmt.Sprintf("%#v", it.Current().Key))
		}
		return
	})
	cmpChan("tchan:receive-only", []lang{"a", "b"}, func(ch chan lang) (out []string) {
		var ro <-chan lang = ch
		it := seq.NewChanIter(ro)
		for it.MoveNext() {
			out = append(out, fmt.Sprintf("%#v", it.Current().Key))
		}
		return
	})
	cmpChan("tchan:defined-receive-only-type", []lang{"a", "b", "c"}, func(ch chan lang) (out []string) {
		it := seq.NewChanIter(feed(ch))
		for it.MoveNext() {
			out = append(out, fmt.Sprintf("%#v", it.Current().Key))
		}
		return
	})
	cmpChan("tchan:defined-bidirectional-type", []lang{"z"}, func(ch chan lang) (out []string) {
		it := seq.NewChanIter(pipe(ch))
		for it.MoveNext() {
			out = append(out, fmt.Sprintf("%#v", it.Current().Key))
		}
		return
	})
	cmpChan("tchan:struct-elems-with-zero-values", []point{{}, {1, 2, "a"}, {}}, func(ch chan point) (out []string) {
		it := seq.NewChanIter(ch)
		for it.MoveNext() {
			out = append(out, fmt.Sprintf("%#v", it.Current().Key))
		}
		return
	})
	cmpChan("tchan:error-elems-with-nil", []error{nil, fmt.Errorf("e"), nil}, func(ch chan error) (out []string) {
		it := seq.NewChanIter(ch)
		for it.MoveNext() {
			out = append(out, fmt.Sprintf("%#v", it.Current().Key))
		}
		return
	})
}

// ---------------------------------------------------------------- channels

func checkChans(rng *rand.Rand, n int) {
	run := func(id string, mk func() <-chan any, want []any) {
		if !only(id) {
			return
		}
		res.Eval(1)
		var got []any
		p := safe(func() {
			it := seq.NewChanIter(mk())
			for it.MoveNext() {
				v := it.Current().Key
				got = append(got, v)
			}
		})
		if len(want) > 1 {
			res.DistinctKey(id)
		}
		res.Count("chans", 1)
		if p != "" || fmt.Sprintf("%#v", want) != fmt.Sprintf("%#v", append([]any{}, got...)) {
			res.Violate(id, "chan-values", fmt.Sprintf("%s: sent %v, NewChanIter delivered %v panic=%q", id, want, got, p), map[string]any{"probe": "itermodel", "only": id})
		}
	}
	for l := 0; l <= n; l++ {
		vals := make([]any, l)
		for i := range vals {
			switch i % 3 {
			case 0:
				vals[i] = i
			case 1:
				vals[i] = nil // nil element values must be delivered, not mistaken for close
			default:
				vals[i] = fmt.Sprint("s", i)
			}
		}
		run(fmt.Sprintf("chan:buffered-closed:%d", l), func() <-chan any {
			ch := make(chan any, l)
			for _, v := range vals {
				ch <- v
			}
			close(ch)
			return ch
		}, vals)
		run(fmt.Sprintf("chan:unbuffered-producer:%d", l), func() <-chan any {
			ch := make(chan any)
			go func() {
				for _, v := range vals {
					if rng.Intn(2) == 0 {
						runtime.Gosched()
					}
					ch <- v
				}
				close(ch)
			}()
			return ch
		}, vals)
	}
	// the loop body receives from the SAME channel as well (a second reader): the iterator must not have taken
	// more than the value it delivered
	for n := 2; n <= 7; n++ {
		id := fmt.Sprintf("chan:body-receives-too:%d", n)
		if !only(id) {
			continue
		}
		res.Eval(1)
		res.DistinctKey(id)
		mk := func() chan int {
			ch := make(chan int, n)
			for i := 1; i <= n; i++ {
				ch <- i
			}
			close(ch)
			return ch
		}
		var want, got []string
		nc := mk()
		for v := range nc {
			w, ok := <-nc
			want = append(want, fmt.Sprint(v, w, ok, len(nc)))
		}
		p := safe(func() {
			ic := mk()
			it := seq.NewChanIter[int](ic)
			for it.MoveNext() {
				v := it.Current().Key
				w, ok := <-ic
				got = append(got, fmt.Sprint(v, w, ok, len(ic)))
			}
		})
		if p != "" || !reflect.DeepEqual(want, got) {
			res.Violate(id, "chan-second-reader", fmt.Sprintf("%s: (value, value received by the body, ok, len(ch)) per iteration: native %v iterator %v panic=%q", id, want, got, p), map[string]any{"probe": "itermodel", "only": id})
		}
	}
	// zero values of a concrete type must not end the loop
	if id := "chan:int-zeros"; only(id) {
		res.Eval(1)
		res.DistinctKey(id)
		ch := make(chan int, 4)
		ch <- 0
		ch <- 0
		ch <- 5
		ch <- 0
		close(ch)
		var got []int
		it := seq.NewChanIter[int](ch)
		for it.MoveNext() {
			got = append(got, it.Current().Key)
		}
		if !reflect.DeepEqual(got, []int{0, 0, 5, 0}) {
			res.Violate(id, "chan-values", fmt.Sprintf("chan int with zero values: got %v", got), map[string]any{"probe": "itermodel", "only": id})
		}
	}
}

func main() {
	plib.Flags()
	rng := rand.New(rand.NewSource(plib.Seed))
	res.Rule = "strings: every byte string up to the length bound over the 10-byte alphabet {a z C3 A9 E2 82 AC F0 9F FF} (exhaustive) + PRNG longer ones; non-trivial = contains a byte >= 0x80. ints: n in [-3,64] + PRNG. slices: all lengths <= bound x all single (and some double) mutation steps set/append/reslice/nil/grow at every iteration; non-trivial = mutated, len>1. maps: all key sets <= bound x delete/update/insert scripts + PRNG larger maps, typed cases with nil interface keys/values and NaN; element / collection TYPES: 35 directed collections over defined map / slice / string / channel types (incl. receive-only and defined channel types) and elements of every kind (defined strings and ints, bool, float, complex, arrays, structs, pointers, funcs, channels, maps, interface types holding defined values and nil), compared with %#v; channels: buffered+closed and unbuffered producer with nil elements. distinct = distinct input x script."
	res.Exhaustive = true
	// (the whole quick run takes a few seconds: the quick tier uses what used to be the thorough bounds)
	maxStr, maxSl, maxMap, nRandStr, nRandMap := 6, 6, 5, 100000, 5000
	if plib.Thorough() {
		maxStr, maxSl, maxMap, nRandStr, nRandMap = 7, 8, 6, 1000000, 50000
	}
	allStrings(maxStr)
	boundaryStrings()
	randomStrings(rng, nRandStr)
	for n := -3; n <= 64; n++ {
		checkInt(n)
	}
	for i := 0; i < 40; i++ {
		checkInt(rng.Intn(5000) - 100)
	}
	typedInts()
	allSlices(maxSl)
	sliceOther()
	allMaps(maxMap, rng, nRandMap)
	mapTypes()
	typedCollections()
	checkChans(rng, 6)
	res.Extra["alphabet"] = fmt.Sprintf("% x", alphabet)
	res.Extra["max_string_len_exhaustive"] = maxStr
	res.Write()
}
