// Probe for C08 (combinator semantics) and C09 (iterator protocol).
//
// C08: combinator terms are data; each term is (a) interpreted by a small
// big-step reference interpreter for structured loops with break/continue/
// return, producing the predicted interleaved event list, and (b) built as a
// real seq value and driven through Start/MoveNext/Current/Result with the same
// logging. The two event lists must be equal (which decides every truncation
// point, because the consumer's call/return markers are part of the list).
//
// C09: every call history up to a length bound over {MoveNext, Current,
// Send(a), Send(b), Result} is applied to a family of generators and to a
// three-state protocol model written from the property text.
package main

import (
	"flag"
	"fmt"
	"math/rand"
	"strings"

	"github.com/goghcrow/go-co/seq"
	"scratch/plib"
)

var res = plib.New()
var mode = flag.String("mode", "c08", "c08|c09")

// ------------------------------------------------------------------ terms

type Term struct {
	K    string // bind bindrecv delay combine for normal break continue return retval
	ID   int
	A, B *Term
	// for-loops
	HasCond bool
	CondN   int // cond is true for the first CondN evaluations of each loop entry
	HasPost bool
	// Shared: the loop is ONE seq value built once (no Delay around it), so the same value is
	// re-run every time control reaches it again; its condition counter lives in the node and
	// is reset when the condition turns false
	Shared bool
}

func (t *Term) String() string {
	switch t.K {
	case "bind", "bindrecv", "delay":
		return fmt.Sprintf("%s%d(%v)", t.K, t.ID, t.A)
	case "combine":
		return fmt.Sprintf("combine(%v,%v)", t.A, t.B)
	case "for":
		c, p := "nil", "nil"
		if t.HasCond {
			c = fmt.Sprintf("c%d<=%d", t.ID, t.CondN)
		}
		if t.HasPost {
			p = fmt.Sprintf("p%d", t.ID)
		}
		if t.Shared {
			return fmt.Sprintf("FOR(%s,%s,%v)", c, p, t.A)
		}
		return fmt.Sprintf("for(%s,%s,%v)", c, p, t.A)
	case "retval":
		return fmt.Sprintf("retval(%d)", 1000+t.ID)
	}
	return t.K
}

func number(t *Term, n *int) {
	if t == nil {
		return
	}
	*n++
	t.ID = *n
	number(t.A, n)
	number(t.B, n)
}

func clone(t *Term) *Term {
	if t == nil {
		return nil
	}
	c := *t
	c.A, c.B = clone(t.A), clone(t.B)
	return &c
}

// ------------------------------------------------------------------ logging with budget

type budgetExceeded struct{}

type logger struct {
	ev     []string
	budget int
	shared map[int]int // condition counters of Shared loops, per run (node id -> evaluations since the last false)
}

func (l *logger) log(s string) {
	l.ev = append(l.ev, s)
	l.budget--
	if l.budget <= 0 {
		panic(budgetExceeded{})
	}
}

// ------------------------------------------------------------------ real

func build(t *Term, l *logger) seq.Seq[int] {
	switch t.K {
	case "bind":
		return seq.Bind(t.ID, func() seq.Seq[int] {
			l.log(fmt.Sprintf("t%d", t.ID))
			return build(t.A, l)
		})
	case "bindrecv":
		return seq.BindRecv(t.ID, func(r int) seq.Seq[int] {
			l.log(fmt.Sprintf("t%d(r=%d)", t.ID, r))
			return build(t.A, l)
		})
	case "delay":
		return seq.Delay(func() seq.Seq[int] {
			l.log(fmt.Sprintf("d%d", t.ID))
			return build(t.A, l)
		})
	case "combine":
		return seq.Combine(build(t.A, l), build(t.B, l))
	case "for":
		if t.Shared {
			var cond func() bool
			var post func()
			if t.HasCond {
				cond = func() bool {
					if l.shared == nil {
						l.shared = map[int]int{}
					}
					n := l.shared[t.ID] + 1
					ok := n <= t.CondN
					if !ok {
						n = 0
					}
					l.shared[t.ID] = n
					l.log(fmt.Sprintf("c%d=%v", t.ID, ok))
					return ok
				}
			}
			if t.HasPost {
				post = func() { l.log(fmt.Sprintf("p%d", t.ID)) }
			}
			return seq.For(cond, post, build(t.A, l))
		}
		// the counter lives in a Delay, like a compiled `i := 0; for ...` : fresh per loop entry
		return seq.Delay(func() seq.Seq[int] {
			n := 0
			var cond func() bool
			var post func()
			if t.HasCond {
				cond = func() bool {
					n++
					ok := n <= t.CondN
					l.log(fmt.Sprintf("c%d=%v", t.ID, ok))
					return ok
				}
			}
			if t.HasPost {
				post = func() { l.log(fmt.Sprintf("p%d", t.ID)) }
			}
			body := build(t.A, l)
			switch {
			case !t.HasCond && !t.HasPost && t.ID%2 == 0:
				return seq.Loop(body)
			case t.HasCond && !t.HasPost && t.ID%2 == 0:
				return seq.While(cond, body)
			default:
				return seq.For(cond, post, body)
			}
		})
	case "normal":
		return seq.Normal[int]()
	case "break":
		return seq.Break[int]()
	case "continue":
		return seq.Continue[int]()
	case "return":
		return seq.Return[int]()
	case "retval":
		return seq.ReturnValue(1000 + t.ID)
	}
	panic("bad term " + t.K)
}

// drive runs the real iterator: up to maxMoves advances, then two more after exhaustion.
func driveReal(t *Term, maxMoves, budget int) (ev []string) {
	l := &logger{budget: budget}
	defer func() {
		ev = l.ev
		if r := recover(); r != nil {
			if _, ok := r.(budgetExceeded); ok {
				ev = append(ev, "BUDGET")
				return
			}
			ev = append(ev, fmt.Sprint("PANIC:", r))
		}
	}()
	it := seq.Start(build(t, l))
	l.log(fmt.Sprintf("new C=%d", it.Current()))
	for i := 0; i < maxMoves; i++ {
		l.log("M>")
		ok := it.MoveNext()
		l.log(fmt.Sprintf("M<%v C=%d", ok, it.Current()))
		if !ok {
			l.log(fmt.Sprintf("R=%d", it.(seq.Generator[int]).Result()))
			l.log("M>")
			ok2 := it.MoveNext()
			l.log(fmt.Sprintf("M<%v C=%d R=%d", ok2, it.Current(), it.(seq.Generator[int]).Result()))
			break
		}
	}
	return l.ev
}

// ------------------------------------------------------------------ reference interpreter

type sig int

const (
	sNormal sig = iota
	sBreak
	sContinue
	sReturn
)

type stopRef struct{}

type refRun struct {
	l        *logger
	moves    int
	maxMoves int
	send     bool // every advance after the first is Send(100+k)
	recv     int  // value the pending yield receives when resumed
	shared   map[int]int // condition counters of Shared loops (node id -> evaluations since last false)
}

// yield models the suspension: the consumer's MoveNext returns true with value v,
// then (if the consumer advances again) the generator resumes.
func (r *refRun) yield(v int) {
	if r.send && r.moves > 0 {
		r.l.log(fmt.Sprintf("S<%d,true C=%d", v, v))
	} else {
		r.l.log(fmt.Sprintf("M<true C=%d", v))
	}
	r.moves++
	if r.moves >= r.maxMoves {
		panic(stopRef{})
	}
	if r.send {
		r.recv = 100 + r.moves
		r.l.log(fmt.Sprintf("S>%d", r.recv))
	} else {
		r.recv = 0
		r.l.log("M>")
	}
}

func (r *refRun) run(t *Term) (sig, int) {
	switch t.K {
	case "bind":
		r.yield(t.ID)
		r.l.log(fmt.Sprintf("t%d", t.ID))
		return r.run(t.A)
	case "bindrecv":
		r.yield(t.ID)
		r.l.log(fmt.Sprintf("t%d(r=%d)", t.ID, r.recv)) // MoveNext resumes with the zero value, Send(v) with v
		return r.run(t.A)
	case "delay":
		r.l.log(fmt.Sprintf("d%d", t.ID))
		return r.run(t.A)
	case "combine":
		s, v := r.run(t.A)
		if s != sNormal {
			return s, v // break/continue/return skip the rest of a Combine
		}
		return r.run(t.B)
	case "for":
		n := 0
		first := true
		for {
			if !first && t.HasPost {
				r.l.log(fmt.Sprintf("p%d", t.ID)) // post: after normal completion and continue, not before the 1st iteration
			}
			first = false
			if t.HasCond {
				if t.Shared {
					n = r.shared[t.ID]
				}
				n++
				ok := n <= t.CondN
				if t.Shared {
					if ok {
						r.shared[t.ID] = n
					} else {
						r.shared[t.ID] = 0
					}
				}
				r.l.log(fmt.Sprintf("c%d=%v", t.ID, ok))
				if !ok {
					return sNormal, 0
				}
			}
			s, v := r.run(t.A)
			switch s {
			case sBreak:
				return sNormal, 0
			case sReturn:
				return sReturn, v
			}
		}
	case "normal":
		return sNormal, 0
	case "break":
		return sBreak, 0
	case "continue":
		return sContinue, 0
	case "return":
		return sReturn, 0
	case "retval":
		return sReturn, 1000 + t.ID
	}
	panic("bad term")
}

func driveRef(t *Term, maxMoves, budget int) (ev []string) {
	l := &logger{budget: budget}
	r := &refRun{l: l, maxMoves: maxMoves, shared: map[int]int{}}
	defer func() {
		ev = l.ev
		if x := recover(); x != nil {
			switch x.(type) {
			case budgetExceeded:
				ev = append(ev, "BUDGET")
			case stopRef:
			default:
				panic(x)
			}
		}
	}()
	l.log("new C=0")
	l.log("M>")
	_, v := r.run(t)
	l.log("M<false C=0")
	l.log(fmt.Sprintf("R=%d", v))
	l.log("M>")
	l.log(fmt.Sprintf("M<false C=0 R=%d", v))
	return l.ev
}

// driveRefSend / driveRealSend: the first advance is MoveNext, every later one Send(100+k).
func driveRefSend(t *Term, maxMoves, budget int) (ev []string) {
	l := &logger{budget: budget}
	r := &refRun{l: l, maxMoves: maxMoves, shared: map[int]int{}, send: true}
	defer func() {
		ev = l.ev
		if x := recover(); x != nil {
			switch x.(type) {
			case budgetExceeded:
				ev = append(ev, "BUDGET")
			case stopRef:
			default:
				panic(x)
			}
		}
	}()
	l.log("M>")
	_, v := r.run(t)
	if r.moves > 0 {
		l.log("S<0,false C=0")
	} else {
		l.log("M<false C=0")
	}
	l.log(fmt.Sprintf("R=%d", v))
	return l.ev
}

func driveRealSend(t *Term, maxMoves, budget int) (ev []string) {
	l := &logger{budget: budget}
	defer func() {
		ev = l.ev
		if r := recover(); r != nil {
			if _, ok := r.(budgetExceeded); ok {
				ev = append(ev, "BUDGET")
				return
			}
			ev = append(ev, fmt.Sprint("PANIC:", r))
		}
	}()
	it := seq.Start(build(t, l)).(seq.Generator[int])
	l.log("M>")
	ok := it.MoveNext()
	if !ok {
		l.log(fmt.Sprintf("M<false C=%d", it.Current()))
		l.log(fmt.Sprintf("R=%d", it.Result()))
		return l.ev
	}
	l.log(fmt.Sprintf("M<true C=%d", it.Current()))
	for i := 1; i < maxMoves; i++ {
		l.log(fmt.Sprintf("S>%d", 100+i))
		v, ok := it.Send(100 + i)
		if !ok {
			l.log(fmt.Sprintf("S<%d,false C=%d", v, it.Current()))
			l.log(fmt.Sprintf("R=%d", it.Result()))
			return l.ev
		}
		l.log(fmt.Sprintf("S<%d,true C=%d", v, it.Current()))
	}
	return l.ev
}

// ------------------------------------------------------------------ enumeration

// wellFormed terms: break/continue only under a loop; cond-less loops have a body
// that logs (delay/bind first) so that the event budget bounds every run.
func enumerate(size int, inLoop bool, emit func(*Term)) {
	if size <= 0 {
		return
	}
	if size == 1 {
		leaves := []string{"normal", "return", "retval"}
		if inLoop {
			leaves = append(leaves, "break", "continue")
		}
		for _, k := range leaves {
			emit(&Term{K: k})
		}
		return
	}
	// unary
	for _, k := range []string{"bind", "bindrecv", "delay"} {
		enumerate(size-1, inLoop, func(a *Term) { emit(&Term{K: k, A: a}) })
	}
	// loops (unary); variants: (cond N in 0..2, post?) and cond-less
	enumerate(size-1, true, func(a *Term) {
		for n := 0; n <= 2; n++ {
			emit(&Term{K: "for", A: a, HasCond: true, CondN: n})
			emit(&Term{K: "for", A: a, HasCond: true, CondN: n, HasPost: true})
			if n > 0 {
				emit(&Term{K: "for", A: a, HasCond: true, CondN: n, HasPost: true, Shared: true})
				emit(&Term{K: "for", A: a, HasCond: true, CondN: n, Shared: true})
			}
		}
		if a.K == "delay" || a.K == "bind" || a.K == "bindrecv" {
			emit(&Term{K: "for", A: a})
			emit(&Term{K: "for", A: a, HasPost: true})
		}
	})
	// binary
	for l := 1; l <= size-2; l++ {
		enumerate(l, inLoop, func(a *Term) {
			enumerate(size-1-l, inLoop, func(b *Term) {
				emit(&Term{K: "combine", A: clone(a), B: clone(b)})
			})
		})
	}
}

func randomTerm(rng *rand.Rand, size int, inLoop bool) *Term {
	if size <= 1 {
		leaves := []string{"normal", "normal", "return", "retval"}
		if inLoop {
			leaves = append(leaves, "break", "continue")
		}
		return &Term{K: leaves[rng.Intn(len(leaves))]}
	}
	switch rng.Intn(10) {
	case 0, 1, 2:
		return &Term{K: []string{"bind", "bind", "bindrecv"}[rng.Intn(3)], A: randomTerm(rng, size-1, inLoop)}
	case 3:
		return &Term{K: "delay", A: randomTerm(rng, size-1, inLoop)}
	case 4, 5:
		a := randomTerm(rng, size-1, true)
		t := &Term{K: "for", A: a, HasCond: rng.Intn(4) != 0, CondN: rng.Intn(4), HasPost: rng.Intn(2) == 0}
		t.Shared = t.HasCond && rng.Intn(3) == 0
		if !t.HasCond && !(a.K == "delay" || a.K == "bind" || a.K == "bindrecv") {
			t.A = &Term{K: "delay", A: a}
		}
		return t
	default:
		if size < 3 {
			return randomTerm(rng, size-1, inLoop)
		}
		l := 1 + rng.Intn(size-2)
		return &Term{K: "combine", A: randomTerm(rng, l, inLoop), B: randomTerm(rng, size-1-l, inLoop)}
	}
}

func features(t *Term, f map[string]bool, inLoop bool) {
	if t == nil {
		return
	}
	switch t.K {
	case "for":
		f["loop"] = true
		if t.HasPost {
			f["post"] = true
		}
		features(t.A, f, true)
		return
	case "break", "continue":
		f[t.K] = true
	case "return", "retval":
		if inLoop {
			f["return-in-loop"] = true
		}
	case "combine":
		f["combine"] = true
	case "bind", "bindrecv":
		f["yield"] = true
	}
	features(t.A, f, inLoop)
	features(t.B, f, inLoop)
}

var c08seen = map[string]bool{}

func hasShared(t *Term) bool {
	if t == nil {
		return false
	}
	return t.Shared || hasShared(t.A) || hasShared(t.B)
}

// driveTwice starts ONE seq value twice; every piece of loop state must be per run.
func driveTwice(t *Term, maxMoves, budget int) (first, second []string) {
	run := func(s seq.Seq[int], l *logger) (ev []string) {
		defer func() {
			ev = l.ev
			if r := recover(); r != nil {
				if _, ok := r.(budgetExceeded); ok {
					ev = append(ev, "BUDGET")
					return
				}
				ev = append(ev, fmt.Sprint("PANIC:", r))
			}
		}()
		it := seq.Start(s)
		for i := 0; i < maxMoves; i++ {
			l.log("M>")
			ok := it.MoveNext()
			l.log(fmt.Sprintf("M<%v C=%d", ok, it.Current()))
			if !ok {
				l.log(fmt.Sprintf("R=%d", it.(seq.Generator[int]).Result()))
				break
			}
		}
		return l.ev
	}
	l := &logger{budget: budget}
	s := build(t, l)
	first = append([]string{}, run(s, l)...)
	l.ev, l.budget = nil, budget
	second = run(s, l)
	return
}

// driveInterleaved starts ONE seq value twice and advances the two iterators ALTERNATELY: each iterator's own
// record must equal the record of a solo run (nothing a run needs may live in the Seq value or its yield sites).
func driveInterleaved(t *Term, maxMoves, budget int) (solo []string, recs [2][]string) {
	l := &logger{budget: 3 * budget}
	s := build(t, l)
	step := func(it seq.Iterator[int], done *bool) (out []string) {
		if *done {
			return nil
		}
		mark := len(l.ev)
		defer func() {
			if r := recover(); r != nil {
				out = append(append([]string{}, l.ev[mark:]...), fmt.Sprint("PANIC:", r))
				*done = true
			}
		}()
		l.log("M>")
		ok := it.MoveNext()
		l.log(fmt.Sprintf("M<%v C=%d", ok, it.Current()))
		if !ok {
			l.log(fmt.Sprintf("R=%d", it.(seq.Generator[int]).Result()))
			*done = true
		}
		return append([]string{}, l.ev[mark:]...)
	}
	// solo
	{
		it := seq.Start(s)
		done := false
		for i := 0; i < maxMoves && !done; i++ {
			solo = append(solo, step(it, &done)...)
		}
	}
	its := [2]seq.Iterator[int]{seq.Start(s), seq.Start(s)}
	var done [2]bool
	for i := 0; i < maxMoves; i++ {
		for k := 0; k < 2; k++ {
			recs[k] = append(recs[k], step(its[k], &done[k])...)
		}
	}
	return
}

func checkTerm(t *Term, origin string) {
	n := 0
	number(t, &n)
	id := t.String()
	if plib.Only != "" && plib.Only != id && plib.Only != "term:"+id && plib.Only != "term2:"+id && plib.Only != "term3:"+id && plib.Only != "term4:"+id {
		return
	}
	const maxMoves, budget = 8, 400
	want := driveRef(t, maxMoves, budget)
	got := driveReal(t, maxMoves, budget)
	res.Eval(1)
	res.Count("terms_"+origin, 1)
	res.Count("events_observed", len(got))
	f := map[string]bool{}
	features(t, f, false)
	if f["yield"] && (f["loop"] || f["combine"]) && !c08seen[id] {
		c08seen[id] = true
		res.DistinctN(1)
	}
	if len(res.Samples) < 3 && f["loop"] && f["combine"] && f["yield"] && f["post"] && (f["continue"] || f["break"]) {
		res.Sample(map[string]any{"term": id, "real_trace": strings.Join(got, " "), "reference_trace": strings.Join(want, " ")})
	}
	if !hasShared(t) && len(got) < 120 {
		a, b := driveTwice(t, maxMoves, budget)
		res.Count("double_starts", 1)
		if d := firstDiff(a, b); d >= 0 {
			res.Violate("term2:"+id, "c08-second-start-differs", fmt.Sprintf("term %s: the same Seq value started twice\n first:  %s\n second: %s", id, strings.Join(a, " "), strings.Join(b, " ")),
				map[string]any{"probe": "seqmodel", "mode": "c08", "only": id})
		}
	}
	if !hasShared(t) && len(got) < 120 && f["yield"] {
		func() {
			defer func() {
				if r := recover(); r != nil {
					if _, ok := r.(budgetExceeded); !ok {
						panic(r)
					}
				}
			}()
			solo, recs := driveInterleaved(t, maxMoves, budget)
			res.Count("interleaved_double_starts", 1)
			for k := 0; k < 2; k++ {
				if d := firstDiff(solo, recs[k]); d >= 0 {
					res.Violate("term3:"+id, "c08-interleaved-starts-differ", fmt.Sprintf("term %s: the same Seq value started twice, iterators advanced alternately; iterator #%d\n alone:       %s\n interleaved: %s", id, k+1, strings.Join(solo, " "), strings.Join(recs[k], " ")),
						map[string]any{"probe": "seqmodel", "mode": "c08", "only": id})
					break
				}
			}
		}()
	}
	if f["yield"] {
		ws, gs := driveRefSend(t, maxMoves, budget), driveRealSend(t, maxMoves, budget)
		res.Count("send_driven_terms", 1)
		if d := firstDiff(ws, gs); d >= 0 {
			res.Violate("term4:"+id, "c08-trace-send", fmt.Sprintf("term %s driven by MoveNext then Send(101), Send(102), ...\n reference: %s\n real:      %s\n first difference at event %d: want %q got %q",
				id, strings.Join(ws, " "), strings.Join(gs, " "), d, at(ws, d), at(gs, d)),
				map[string]any{"probe": "seqmodel", "mode": "c08", "only": id})
		}
	}
	if d := firstDiff(want, got); d >= 0 {
		res.Violate("term:"+id, "c08-trace", fmt.Sprintf("term %s\n reference: %s\n real:      %s\n first difference at event %d: want %q got %q",
			id, strings.Join(want, " "), strings.Join(got, " "), d, at(want, d), at(got, d)),
			map[string]any{"probe": "seqmodel", "mode": "c08", "only": id})
	}
}

func at(xs []string, i int) string {
	if i < len(xs) {
		return xs[i]
	}
	return "<end>"
}

func firstDiff(a, b []string) int {
	for i := 0; i < len(a) || i < len(b); i++ {
		if at(a, i) != at(b, i) {
			return i
		}
	}
	return -1
}

// metamorphic laws on the real runtime only
func checkLaws(rng *rand.Rand, n int) {
	real := func(t *Term) string { return strings.Join(driveReal(t, 8, 400), " ") }
	for i := 0; i < n; i++ {
		a, b, c := randomTerm(rng, 1+rng.Intn(5), false), randomTerm(rng, 1+rng.Intn(5), false), randomTerm(rng, 1+rng.Intn(5), false)
		// ids follow the order a, b, c (combine nodes do not log, so their ids are irrelevant);
		// the runs do not mutate terms, so a, b, c are shared by both nestings
		k := 0
		number(a, &k)
		number(b, &k)
		number(c, &k)
		l := &Term{K: "combine", A: &Term{K: "combine", A: a, B: b}, B: c}
		r := &Term{K: "combine", A: a, B: &Term{K: "combine", A: b, B: c}}
		tl, tr := real(l), real(r)
		res.Eval(1)
		res.Count("law_assoc", 1)
		if tl != tr {
			res.Violate("law:assoc:"+a.String()+"|"+b.String()+"|"+c.String(), "c08-assoc", fmt.Sprintf("Combine not associative for a=%v b=%v c=%v\n left:  %s\n right: %s", a, b, c, tl, tr), nil)
		}
		// unit laws
		u1 := &Term{K: "combine", A: &Term{K: "normal"}, B: a}
		u2 := &Term{K: "combine", A: a, B: &Term{K: "normal"}}
		ta := real(a)
		res.Count("law_unit", 2)
		if real(u1) != ta || real(u2) != ta {
			res.Violate("law:unit:"+a.String(), "c08-unit", fmt.Sprintf("Normal is not a unit of Combine for a=%v\n a: %s\n Combine(Normal,a): %s\n Combine(a,Normal): %s", a, ta, real(u1), real(u2)), nil)
		}
	}
}

func runC08() {
	rng := rand.New(rand.NewSource(plib.Seed))
	maxSize, nRandom, nLaws := 5, 250000, 20000
	if plib.Thorough() {
		maxSize, nRandom, nLaws = 6, 1500000, 200000
	}
	for s := 1; s <= maxSize; s++ {
		enumerate(s, false, func(t *Term) { checkTerm(clone(t), "exhaustive") })
	}
	for i := 0; i < nRandom; i++ {
		checkTerm(randomTerm(rng, 3+rng.Intn(28), false), "random")
	}
	checkLaws(rng, nLaws)
	res.Exhaustive = true
	res.Extra["max_term_size_exhaustive"] = maxSize
	res.Rule = fmt.Sprintf("all well-formed combinator terms (Bind BindRecv Delay Combine For/While/Loop with cond true for the first 0..2 evaluations and optional post, Normal Break Continue Return ReturnValue) up to %d nodes, exhaustively, + PRNG terms up to 30 nodes; each driven through Start/MoveNext/Current/Result (8 advances + 2 after exhaustion) and compared event-by-event with the reference interpreter; + associativity/unit laws on PRNG triples. non-trivial = term yields and contains a loop or a Combine; distinct = distinct term text.", maxSize)
}

// ------------------------------------------------------------------ C09: protocol

// a generator of the family: a list of segments then a way to end
type seg struct {
	Echo bool // BindRecv: logs the received value, next const yield value += received
}
type gen struct {
	Name string
	// Static: the first yield site is NOT under a Delay (the Bind / BindRecv value is built once, when the Seq is
	// built, and shared by every run of it); its segment therefore has no effect of its own
	Static bool
	// SelfRead: the generator code reads Current() of its OWN iterator while an advance is in flight
	// (it must see the value delivered by the latest successful advance)
	SelfRead bool
	Segs     []seg
	End  string // normal | return | retval | loop (loop = segments repeat forever) | retval-in-loop (the whole generator is the body of a While loop and returns its value from inside)
}

const retVal = 4242

// selfCur reads Current() of the iterator under test (set by the history runner)
var selfCur = func() int { return -1 }

// real generator; effects are logged into l
// emit appends a generator-side effect. A single consumer call legitimately causes a handful of effects; a log
// beyond stepLimit means a call kept running generator code (e.g. an accessor draining an infinite generator):
// the call is cut by a panic, which the history runner records as the call's outcome (a logical bound, no clock)
const stepLimit = 4000

type stepLimitExceeded struct{}

func (stepLimitExceeded) String() string { return "call still running generator code after 4000 effects" }

// fxJoin prints an effect log (abbreviated when a runaway call made it huge)
func fxJoin(l []string) string {
	if len(l) > 60 {
		return strings.Join(l[:30], ".") + fmt.Sprintf("...(%d effects)...", len(l)) + strings.Join(l[len(l)-5:], ".")
	}
	return strings.Join(l, ".")
}

func emit(l *[]string, s string) {
	if len(*l) > stepLimit {
		panic(stepLimitExceeded{})
	}
	*l = append(*l, s)
}

func (g gen) real(l *[]string) seq.Seq[int] {
	if g.End == "retval-in-loop" {
		inner := gen{Name: g.Name, Segs: g.Segs, End: "retval"}
		body := inner.real(l)
		// a loop that would run twice; the body returns a value from inside its first iteration
		// (the counter belongs to the run: one Seq value may be started several times)
		return seq.Delay(func() seq.Seq[int] {
			n := 0
			return seq.For(func() bool { n++; return n <= 2 }, func() {}, body)
		})
	}
	if strings.HasSuffix(g.End, "-in-combine") || strings.HasSuffix(g.End, "-in-nested-combine") {
		// the generator is the FIRST half of a Combine: Return / ReturnValue must skip the second half(s)
		// and keep the return value
		base := strings.TrimSuffix(strings.TrimSuffix(g.End, "-in-combine"), "-in-nested-combine")
		inner := gen{Name: g.Name, Segs: g.Segs, End: base}.real(l)
		tail := func(tag string) seq.Seq[int] {
			return seq.Delay(func() seq.Seq[int] {
				emit(l, tag)
				return seq.Bind(77, seq.Normal[int])
			})
		}
		if strings.HasSuffix(g.End, "-in-nested-combine") {
			return seq.Combine(seq.Combine(inner, tail("TAIL1")), tail("TAIL2"))
		}
		return seq.Combine(inner, tail("TAIL"))
	}
	var from func(i int, carry int) seq.Seq[int]
	from = func(i int, carry int) seq.Seq[int] {
		if i == len(g.Segs) {
			switch g.End {
			case "loop":
				if len(g.Segs) == 0 {
					return seq.Normal[int]()
				}
				return seq.Delay(func() seq.Seq[int] { return from(0, carry) })
			case "return":
				return seq.Delay(func() seq.Seq[int] { emit(l, "end"); return seq.Return[int]() })
			case "retval":
				return seq.Delay(func() seq.Seq[int] { emit(l, "end"); return seq.ReturnValue(retVal) })
			default:
				return seq.Delay(func() seq.Seq[int] { emit(l, "end"); return seq.Normal[int]() })
			}
		}
		s := g.Segs[i]
		if g.Static && i == 0 {
			v := 10 + carry
			if s.Echo {
				return seq.BindRecv(v, func(r int) seq.Seq[int] {
					emit(l, fmt.Sprintf("recv%d=%d", i, r))
					return from(i+1, r)
				})
			}
			return seq.Bind(v, func() seq.Seq[int] {
				emit(l, fmt.Sprintf("resume%d", i))
				return from(i+1, 0)
			})
		}
		return seq.Delay(func() seq.Seq[int] {
			v := 10*(i+1) + carry
			emit(l, fmt.Sprintf("seg%d", i))
			if g.SelfRead {
				emit(l, fmt.Sprintf("cur=%d", selfCur()))
			}
			if s.Echo {
				return seq.BindRecv(v, func(r int) seq.Seq[int] {
					emit(l, fmt.Sprintf("recv%d=%d", i, r))
					return from(i+1, r)
				})
			}
			return seq.Bind(v, func() seq.Seq[int] {
				emit(l, fmt.Sprintf("resume%d", i))
				return from(i+1, 0)
			})
		})
	}
	return from(0, 0)
}

// protocol model written from the property text
type model struct {
	g       gen
	state   int // 0 unstarted, 1 suspended, 2 done
	pos     int // index of the segment the generator is suspended at
	carry   int
	current int
	result  int
	l       []string
}

// advance resumes (or starts) the generator with recv; returns whether it yielded
func (m *model) advance(recv int) bool {
	if m.state == 2 {
		return false
	}
	if m.state == 0 {
		m.state = 1
		m.pos = -1
	} else {
		s := m.g.Segs[m.pos]
		if s.Echo {
			m.l = append(m.l, fmt.Sprintf("recv%d=%d", m.pos, recv))
			m.carry = recv
		} else {
			m.l = append(m.l, fmt.Sprintf("resume%d", m.pos))
			m.carry = 0
		}
	}
	m.pos++
	if m.pos == len(m.g.Segs) && m.g.End == "loop" && len(m.g.Segs) > 0 {
		m.pos = 0
	}
	if m.pos >= len(m.g.Segs) {
		if m.g.End != "loop" {
			m.l = append(m.l, "end")
		}
		m.state = 2
		m.current = 0
		if strings.HasPrefix(m.g.End, "retval") {
			m.result = retVal
		}
		return false
	}
	if !(m.g.Static && m.pos == 0) {
		m.l = append(m.l, fmt.Sprintf("seg%d", m.pos))
		if m.g.SelfRead {
			m.l = append(m.l, fmt.Sprintf("cur=%d", m.current))
		}
	}
	m.current = 10*(m.pos+1) + m.carry
	return true
}

func (m *model) apply(op string) string {
	switch op {
	case "M":
		return fmt.Sprintf("M=%v", m.advance(0))
	case "C":
		return fmt.Sprintf("C=%d", m.current)
	case "Sa", "Sb":
		v := 1
		if op == "Sb" {
			v = 2
		}
		if m.state == 0 {
			// Send first advances an unstarted generator to its first yield ...
			if !m.advance(0) {
				return "S=0,false"
			}
		}
		// ... then resumes it with v as the value of the pending yield and returns the next yielded value
		if m.advance(v) {
			return fmt.Sprintf("S=%d,true", m.current)
		}
		return "S=0,false"
	case "R":
		if m.state == 2 {
			return fmt.Sprintf("R=%d", m.result)
		}
		return "R=?" // unspecified before completion
	}
	panic("op")
}

func applyReal(it seq.Generator[int], op string, done bool) string {
	switch op {
	case "M":
		return fmt.Sprintf("M=%v", it.MoveNext())
	case "C":
		return fmt.Sprintf("C=%d", it.Current())
	case "Sa":
		v, ok := it.Send(1)
		return fmt.Sprintf("S=%d,%v", v, ok)
	case "Sb":
		v, ok := it.Send(2)
		return fmt.Sprintf("S=%d,%v", v, ok)
	case "R":
		r := it.Result()
		if !done {
			return "R=?"
		}
		return fmt.Sprintf("R=%d", r)
	}
	panic("op")
}

var ops = []string{"M", "C", "Sa", "Sb", "R"}

func family() []gen {
	var gs []gen
	ends := []string{"normal", "return", "retval"}
	for n := 0; n <= 3; n++ {
		for mask := 0; mask < 1<<n; mask++ {
			// keep the family small: all-bind, all-echo, and alternating
			if n == 3 && !(mask == 0 || mask == 7 || mask == 5 || mask == 2) {
				continue
			}
			var segs []seg
			for i := 0; i < n; i++ {
				segs = append(segs, seg{Echo: mask&(1<<i) != 0})
			}
			for _, e := range ends {
				if n >= 2 && e == "return" {
					continue
				}
				gs = append(gs, gen{Name: fmt.Sprintf("n%d-m%d-%s", n, mask, e), Segs: segs, End: e})
			}
		}
	}
	gs = append(gs, gen{Name: "n0-retval-in-loop", Segs: nil, End: "retval-in-loop"})
	gs = append(gs, gen{Name: "n1-bind-retval-in-loop", Segs: []seg{{false}}, End: "retval-in-loop"})
	gs = append(gs, gen{Name: "n2-echo-retval-in-loop", Segs: []seg{{true}, {false}}, End: "retval-in-loop"})
	for _, e := range []string{"retval-in-combine", "return-in-combine", "retval-in-nested-combine"} {
		gs = append(gs, gen{Name: "n0-" + e, Segs: nil, End: e})
		gs = append(gs, gen{Name: "n1-bind-" + e, Segs: []seg{{false}}, End: e})
		gs = append(gs, gen{Name: "n2-echo-bind-" + e, Segs: []seg{{true}, {false}}, End: e})
	}
	// yield sites outside any Delay
	gs = append(gs, gen{Name: "static-bind-retval", Static: true, Segs: []seg{{false}}, End: "retval"})
	gs = append(gs, gen{Name: "static-echo-bind-retval", Static: true, Segs: []seg{{true}, {false}}, End: "retval"})
	gs = append(gs, gen{Name: "static-bind-echo-normal", Static: true, Segs: []seg{{false}, {true}}, End: "normal"})
	gs = append(gs, gen{Name: "selfread-bind-bind-bind-normal", SelfRead: true, Segs: []seg{{false}, {false}, {false}}, End: "normal"})
	gs = append(gs, gen{Name: "selfread-echo-bind-retval", SelfRead: true, Segs: []seg{{true}, {false}}, End: "retval"})
	gs = append(gs, gen{Name: "loop-echo", Segs: []seg{{true}}, End: "loop"})
	gs = append(gs, gen{Name: "loop-bind-echo", Segs: []seg{{false}, {true}}, End: "loop"})
	return gs
}

func runC09() {
	maxLen := 7
	if plib.Thorough() {
		maxLen = 8
	}
	fam := family()
	res.Extra["generators"] = len(fam)
	res.Extra["max_history_len"] = maxLen
	hist := make([]string, 0, maxLen)
	seen := 0
	var rec func(g gen)
	check := func(g gen) {
		id := g.Name + ":" + strings.Join(hist, ",")
		if plib.Only != "" && plib.Only != id && plib.Only != "hist:"+id {
			return
		}
		var rl []string
		it := seq.Start(g.real(&rl)).(seq.Generator[int])
		selfCur = func() int { return it.Current() }
		m := &model{g: g}
		var wantT, gotT []string
		bad := -1
		for i, op := range hist {
			w := m.apply(op)
			var gv string
			func() {
				defer func() {
					if r := recover(); r != nil {
						gv = fmt.Sprint("PANIC:", r)
					}
				}()
				gv = applyReal(it, op, m.state == 2)
			}()
			wantT = append(wantT, op+"→"+w+" fx="+strings.Join(m.l, "."))
			gotT = append(gotT, op+"→"+gv+" fx="+fxJoin(rl))
			if wantT[i] != gotT[i] && bad < 0 {
				bad = i
			}
		}
		res.Eval(1)
		res.Count("events_observed", len(hist))
		nonTrivial := false
		for _, op := range hist {
			if op == "Sa" || op == "Sb" || op == "R" {
				nonTrivial = true
			}
		}
		if nonTrivial && len(hist) >= 3 {
			seen++
		}
		if len(res.Samples) < 3 && len(hist) == maxLen && g.Name == "n2-m2-retval" && hist[0] == "C" && hist[1] == "Sa" && hist[2] == "M" && hist[3] == "Sb" {
			res.Sample(map[string]any{"generator": g.Name, "history": strings.Join(hist, ","), "real": gotT, "model": wantT})
		}
		// the same history on TWO iterators started from ONE Seq value, advanced alternately call by call:
		// each must follow the protocol model on its own (nothing of a run lives in the Seq value)
		if len(hist) <= 5 && g.End != "loop" && !g.SelfRead {
			var sl []string
			s := g.real(&sl)
			its := [2]seq.Generator[int]{seq.Start(s).(seq.Generator[int]), seq.Start(s).(seq.Generator[int])}
			ms := [2]*model{{g: g}, {g: g}}
			for i, op := range hist {
				for k := 0; k < 2; k++ {
					mark, mmark := len(sl), len(ms[k].l)
					w := ms[k].apply(op)
					var gv string
					func() {
						defer func() {
							if r := recover(); r != nil {
								gv = fmt.Sprint("PANIC:", r)
							}
						}()
						gv = applyReal(its[k], op, ms[k].state == 2)
					}()
					wfx, gfx := strings.Join(ms[k].l[mmark:], "."), fxJoin(sl[mark:])
					if w != gv || wfx != gfx {
						res.Violate("hist2:"+id, "c09-protocol-two-iterators-of-one-seq", fmt.Sprintf("generator %s, ONE Seq value started twice, history %v applied to both iterators alternately: call %d on iterator #%d\n model: %s fx=%s\n real:  %s fx=%s", g.Name, hist, i, k+1, w, wfx, gv, gfx),
							map[string]any{"probe": "seqmodel", "mode": "c09", "only": id})
						return
					}
				}
			}
			res.Count("two_iterators_of_one_seq_histories", 1)
		}
		if bad >= 0 {
			res.Violate("hist:"+id, "c09-protocol", fmt.Sprintf("generator %s history %v: call %d\n model: %s\n real:  %s", g.Name, hist, bad, wantT[bad], gotT[bad]),
				map[string]any{"probe": "seqmodel", "mode": "c09", "only": id})
		}
	}
	rec = func(g gen) {
		if len(hist) > 0 {
			check(g)
		}
		if len(hist) == maxLen {
			return
		}
		for _, op := range ops {
			hist = append(hist, op)
			rec(g)
			hist = hist[:len(hist)-1]
		}
	}
	for _, g := range fam {
		rec(g)
	}
	res.DistinctN(seen)
	res.Exhaustive = true
	res.Rule = fmt.Sprintf("every call history of length 1..%d over {MoveNext, Current, Send(1), Send(2), Result} x %d generators (0..3 yields, Bind/BindRecv mixes, ending by fall-off / Return / ReturnValue, two infinite echo loops), exhaustively; each call's return value and the cumulative generator-side effect log are compared with a 3-state protocol model (Result compared only once the model is done). non-trivial = history of length>=3 containing Send or Result; distinct = generator x history.", maxLen, len(fam))
}

func main() {
	plib.Flags()
	switch *mode {
	case "c08":
		runC08()
	case "c09":
		runC09()
	}
	res.Write()
}
