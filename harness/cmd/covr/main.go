// covr — runner of the runtime-monitoring checks for goghcrow/go-co.
//
//	covr <C01..C18> [--tier quick|thorough] [--seed N]
//	covr replay <replay-file>
package main

import (
	"encoding/json"
	"fmt"
	"os"
	"strconv"

	"covr/internal/engine"
	"covr/internal/verdict"
	"covr/internal/work"
)

var engines = map[string]func(*engine.Ctx){
	"C01": engine.C01,
	"C02": engine.C02,
	"C03": engine.C03,
	"C04": engine.C04,
	"C05": engine.C05,
	"C06": engine.C06,
	"C07": engine.C07,
	"C08": engine.C08,
	"C09": engine.C09,
	"C10": engine.C10,
	"C11": engine.C11,
	"C12": engine.C12,
	"C13": engine.C13,
	"C14": engine.C14,
	"C15": engine.C15,
	"C16": engine.C16,
	"C17": engine.C17,
	"C18": engine.C18,
}

func usage() {
	fmt.Fprintln(os.Stderr, "usage: covr <C01..C18> [--tier quick|thorough] [--seed N] | covr replay <file>")
	os.Exit(2)
}

func main() {
	if len(os.Args) < 2 {
		usage()
	}
	tier := os.Getenv("VERIF_TIER")
	if tier == "" {
		tier = "quick"
	}
	seed := int64(1)
	if s := os.Getenv("VERIF_SEED"); s != "" {
		if n, err := strconv.ParseInt(s, 10, 64); err == nil {
			seed = n
		}
	}
	prop := os.Args[1]
	only := ""
	args := os.Args[2:]
	if prop == "replay" {
		if len(args) < 1 {
			usage()
		}
		bs, err := os.ReadFile(args[0])
		if err != nil {
			fmt.Fprintln(os.Stderr, err)
			os.Exit(2)
		}
		var doc struct {
			Property string `json:"property"`
			Case     string `json:"case"`
			Seed     int64  `json:"seed"`
			Tier     string `json:"tier"`
		}
		if err := json.Unmarshal(bs, &doc); err != nil {
			fmt.Fprintln(os.Stderr, err)
			os.Exit(2)
		}
		prop, only, seed, tier = doc.Property, doc.Case, doc.Seed, doc.Tier
		os.Setenv("COVERIF_REPLAY_FILE", args[0])
		args = args[1:]
	}
	for i := 0; i < len(args); i++ {
		switch args[i] {
		case "--tier":
			i++
			tier = args[i]
		case "--seed":
			i++
			n, err := strconv.ParseInt(args[i], 10, 64)
			if err != nil {
				usage()
			}
			seed = n
		case "--only":
			i++
			only = args[i]
		default:
			usage()
		}
	}
	if tier != "quick" && tier != "thorough" {
		usage()
	}
	f, ok := engines[prop]
	if !ok {
		fmt.Fprintln(os.Stderr, "covr: no check for", prop)
		os.Exit(2)
	}
	work.EnsureDiskSpace(15)
	rep := verdict.New(prop, tier, seed, work.VerifDir())
	if only != "" || os.Getenv("COVERIF_NOEVIDENCE") != "" {
		rep.NoEvidence = true
	}
	rep.Replaying = only != ""
	c := &engine.Ctx{Property: prop, Tier: tier, Seed: seed, Only: only, Rep: rep}
	f(c)
	os.Exit(rep.Finish())
}
