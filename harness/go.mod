module covr

go 1.23
