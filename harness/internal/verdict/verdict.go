// Package verdict implements the three-valued verdict discipline, the
// evidence writer, the known-findings matcher and replay files.
package verdict

import (
	"bufio"
	"crypto/sha256"
	"encoding/hex"
	"encoding/json"
	"fmt"
	"os"
	"path/filepath"
	"sort"
	"strings"
	"time"
)

// Violation is one refuting observation.
type Violation struct {
	Case   string `json:"case"`   // directed case id or program/shape hash
	Sig    string `json:"sig"`    // short signature of the first divergence
	What   string `json:"what"`   // human readable
	Replay any    `json:"replay"` // everything needed to re-run the case
}

// Known is a line of KNOWN_FINDINGS.txt.
type Known struct {
	Kind     string // known | fixed
	Property string
	Case     string
	Sig      string // optional; if set must be a substring of the violation signature
	Feature  string // optional: quarantined input class
	Text     string
}

// Report accumulates what one check run observed.
type Report struct {
	Property    string
	Tier        string
	Seed        int64
	Level       string
	Rule        string
	Assumptions []string
	Exhaustive  bool
	NoEvidence  bool // do not rewrite the evidence file (replays, self-tests)
	Replaying   bool // replay of a single case: observation thresholds do not apply

	start        time.Time
	evaluations  int
	distinct     map[string]struct{}
	samples      []any
	extra        map[string]any
	counters     map[string]int
	violations   []Violation
	inconclusive []string
	harnessErr   []string
	knownHit     map[int]bool
	known        []Known
	verifDir     string
	minDistinct  int
}

// New starts a report.
func New(property, tier string, seed int64, verifDir string) *Report {
	r := &Report{
		Property: property, Tier: tier, Seed: seed, Level: "exploration",
		start:    time.Now(),
		distinct: map[string]struct{}{},
		extra:    map[string]any{},
		counters: map[string]int{},
		knownHit: map[int]bool{},
		verifDir: verifDir,
	}
	r.known = LoadKnown(filepath.Join(verifDir, "KNOWN_FINDINGS.txt"))
	return r
}

// LoadKnown parses the known-findings file (missing file = no findings).
func LoadKnown(path string) []Known {
	f, err := os.Open(path)
	if err != nil {
		return nil
	}
	defer f.Close()
	var ks []Known
	sc := bufio.NewScanner(f)
	sc.Buffer(make([]byte, 1<<20), 1<<20)
	for sc.Scan() {
		line := strings.TrimSpace(sc.Text())
		if line == "" || strings.HasPrefix(line, "#") {
			continue
		}
		var k Known
		switch {
		case strings.HasPrefix(line, "known:"):
			k.Kind = "known"
			line = strings.TrimSpace(strings.TrimPrefix(line, "known:"))
		case strings.HasPrefix(line, "fixed:"):
			k.Kind = "fixed"
			line = strings.TrimSpace(strings.TrimPrefix(line, "fixed:"))
		default:
			continue
		}
		rest := []string{}
		for _, tok := range strings.Fields(line) {
			switch {
			case strings.HasPrefix(tok, "property=") && k.Property == "":
				k.Property = strings.TrimPrefix(tok, "property=")
			case strings.HasPrefix(tok, "case=") && k.Case == "":
				k.Case = strings.TrimPrefix(tok, "case=")
			case strings.HasPrefix(tok, "sig=") && k.Sig == "":
				k.Sig = strings.TrimPrefix(tok, "sig=")
			case strings.HasPrefix(tok, "feature=") && k.Feature == "":
				k.Feature = strings.TrimPrefix(tok, "feature=")
			default:
				rest = append(rest, tok)
			}
		}
		k.Text = strings.Join(rest, " ")
		ks = append(ks, k)
	}
	return ks
}

// QuarantinedFeatures returns the feature tags quarantined for a property set
// (a known finding quarantines its input class for every property: the class is
// simply not generated in enumerated/random streams).
func (r *Report) QuarantinedFeatures() map[string]bool {
	q := map[string]bool{}
	for _, k := range r.known {
		if k.Kind == "known" && k.Feature != "" {
			q[k.Feature] = true
		}
	}
	return q
}

// KnownCases returns the directed case ids listed as known findings for this property.
func (r *Report) KnownCases() map[string]bool {
	q := map[string]bool{}
	for _, k := range r.known {
		if k.Kind == "known" && k.Property == r.Property {
			q[k.Case] = true
		}
	}
	return q
}

func (r *Report) Eval(n int)                { r.evaluations += n }
func (r *Report) Evaluations() int          { return r.evaluations }
func (r *Report) Distinct(key string)       { r.distinct[key] = struct{}{} }
func (r *Report) DistinctCount() int        { return len(r.distinct) }
func (r *Report) Count(name string, n int)  { r.counters[name] += n }
func (r *Report) Counter(name string) int   { return r.counters[name] }
func (r *Report) Set(name string, v any)    { r.extra[name] = v }
func (r *Report) RequireDistinct(n int)     { r.minDistinct = n }
func (r *Report) Inconclusive(what string)  { r.inconclusive = append(r.inconclusive, what) }
func (r *Report) HarnessError(what string)  { r.harnessErr = append(r.harnessErr, what) }
func (r *Report) Violations() []Violation   { return r.violations }
func (r *Report) HarnessErrors() []string   { return r.harnessErr }
func (r *Report) Sample(s any) {
	if len(r.samples) < 6 {
		r.samples = append(r.samples, s)
	}
}

// Violate records a violation (known findings are matched at Finish).
func (r *Report) Violate(v Violation) {
	for _, o := range r.violations {
		if o.Case == v.Case && o.Sig == v.Sig {
			return
		}
	}
	r.violations = append(r.violations, v)
}

func hash(s string) string {
	h := sha256.Sum256([]byte(s))
	return hex.EncodeToString(h[:])[:12]
}

// Finish writes the evidence file, prints verdict lines and returns the exit code.
func (r *Report) Finish() int {
	wall := time.Since(r.start).Seconds()

	// classify violations against the known-findings file
	var fresh []Violation
	for _, v := range r.violations {
		matched := -1
		for i, k := range r.known {
			if k.Kind != "known" || k.Property != r.Property || k.Case != v.Case {
				continue
			}
			if k.Sig != "" && !strings.Contains(v.Sig, k.Sig) {
				continue
			}
			matched = i
			break
		}
		if matched >= 0 {
			if !r.knownHit[matched] {
				r.knownHit[matched] = true
				k := r.known[matched]
				fmt.Printf("KNOWN-FINDING: property=%s case=%s %s\n", r.Property, k.Case, k.Text)
			}
			continue
		}
		fresh = append(fresh, v)
	}

	replayDir := filepath.Join(r.verifDir, "replays")
	var vioOut []map[string]any
	const maxListed = 25
	if len(fresh) > maxListed {
		fmt.Printf("(%d violations observed; the first %d are listed with replay files)\n", len(fresh), maxListed)
	}
	for i, v := range fresh {
		if i >= maxListed {
			break
		}
		os.MkdirAll(replayDir, 0o755)
		name := fmt.Sprintf("%s-%s.json", r.Property, hash(v.Case+"|"+v.Sig+"|"+v.What))
		path := filepath.Join(replayDir, name)
		doc := map[string]any{
			"property": r.Property, "case": v.Case, "sig": v.Sig, "what": v.What,
			"seed": r.Seed, "tier": r.Tier, "replay": v.Replay,
		}
		bs, _ := json.MarshalIndent(doc, "", " ")
		os.WriteFile(path, bs, 0o644)
		fmt.Printf("VIOLATION property=%s replay=%s\n", r.Property, path)
		fmt.Printf("  case=%s sig=%s\n  %s\n", v.Case, v.Sig, strings.ReplaceAll(v.What, "\n", "\n  "))
		vioOut = append(vioOut, map[string]any{"case": v.Case, "sig": v.Sig, "what": trunc(v.What, 2000), "replay": path})
	}

	cov := map[string]any{
		"evaluations":         r.evaluations,
		"distinct_nontrivial": len(r.distinct),
		"rule":                r.Rule,
		"samples":             r.samples,
		"exhaustive":          r.Exhaustive,
		"inconclusive":        len(r.inconclusive),
		"known_findings_seen": len(r.knownHit),
	}
	if len(r.inconclusive) > 0 {
		cov["inconclusive_items"] = head(r.inconclusive, 20)
	}
	if len(r.harnessErr) > 0 {
		cov["harness_errors"] = head(r.harnessErr, 20)
	}
	if len(vioOut) > 0 {
		cov["violation_list"] = vioOut
	}
	keys := make([]string, 0, len(r.counters))
	for k := range r.counters {
		keys = append(keys, k)
	}
	sort.Strings(keys)
	for _, k := range keys {
		cov[k] = r.counters[k]
	}
	for k, v := range r.extra {
		cov[k] = v
	}
	if len(r.samples) == 0 {
		cov["samples"] = []any{}
	}
	ev := map[string]any{
		"property_id": r.Property,
		"tier":        r.Tier,
		"seed":        r.Seed,
		"level":       r.Level,
		"coverage":    cov,
		"assumptions": r.Assumptions,
		"wall_s":      float64(int(wall*100)) / 100,
		"violations":  len(fresh),
	}
	if r.Assumptions == nil {
		ev["assumptions"] = []string{}
	}
	bs, _ := json.MarshalIndent(ev, "", " ")
	if d := os.Getenv("COVERIF_EVIDENCE_DIR"); d != "" {
		// experiments (seeded changes, sweeps): a copy of what the evidence file would say, never /verif/evidence
		os.MkdirAll(d, 0o755)
		os.WriteFile(filepath.Join(d, r.Property+".json"), append(bs, '\n'), 0o644)
	}
	if !r.NoEvidence {
		os.MkdirAll(filepath.Join(r.verifDir, "evidence"), 0o755)
		evPath := filepath.Join(r.verifDir, "evidence", r.Property+".json")
		if err := os.WriteFile(evPath, append(bs, '\n'), 0o644); err != nil {
			fmt.Fprintln(os.Stderr, "covr: cannot write evidence:", err)
			return 2
		}
	}

	fmt.Printf("%s tier=%s seed=%d evaluations=%d distinct_nontrivial=%d violations=%d known=%d inconclusive=%d wall=%.1fs\n",
		r.Property, r.Tier, r.Seed, r.evaluations, len(r.distinct), len(fresh), len(r.knownHit), len(r.inconclusive), wall)

	if len(fresh) > 0 {
		return 1
	}
	if len(r.harnessErr) > 0 {
		for _, e := range head(r.harnessErr, 10) {
			fmt.Fprintln(os.Stderr, "HARNESS-ERROR:", trunc(e, 4000))
		}
		return 2
	}
	min := r.minDistinct
	if min < 2 {
		min = 2
	}
	if len(r.distinct) < min && !r.Replaying {
		fmt.Fprintf(os.Stderr, "INCONCLUSIVE: only %d distinct non-trivial cases observed (need %d)\n", len(r.distinct), min)
		return 2
	}
	return 0
}

func head(xs []string, n int) []string {
	if len(xs) > n {
		return xs[:n]
	}
	return xs
}

func trunc(s string, n int) string {
	if len(s) > n {
		return s[:n] + "…"
	}
	return s
}
