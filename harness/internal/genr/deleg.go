package genr

import (
	"crypto/sha256"
	"encoding/hex"
	"fmt"
	"math/rand"
	"sort"
	"strings"

	"covr/internal/e1"
	"covr/internal/render"
)

// The deleg profile (C05): generator call graphs that use YieldFrom — chains,
// recursion over PRNG trees, delegates advanced by hand before delegation, the
// same iterator delegated twice, delegation at every statement position. Every
// program is also rendered with the delegation spelled out as a range loop
// (metamorphic twin): both go through the compiler and the reference.

const delegHelpers = `
// leaf yields k values base, base+1, ... with an effect before each
func §leaf(k int, base int) ITER[int] GEN[int]{
	tr.E(base)
	for i := 0; i < k; i++ {
		tr.E(base + 1)
		YIELD(tr.V(base+2, base+i))
	}
	tr.E(base + 3)
	RETNIL
}GEN

// chain delegates depth levels deep, yielding before and after each level
func §chain(depth int) ITER[int] GEN[int]{
	if depth == 0 {
		YIELD(0)
		RETNIL
	}
	YIELD(depth * 10)
	YFROM(§chain(depth - 1))
	YIELD(depth*10 + 1)
	RETNIL
}GEN

type §tree struct {
	l, r *§tree
	v    int
}

// mk builds a tree shape from a bit string: pre-order, 1 = node, 0 = nil
func §mk(shape string, pos *int, next *int) *§tree {
	if *pos >= len(shape) || shape[*pos] == '0' {
		*pos++
		return nil
	}
	*pos++
	t := &§tree{}
	t.l = §mk(shape, pos, next)
	*next++
	t.v = *next
	t.r = §mk(shape, pos, next)
	return t
}

func §walk(t *§tree) ITER[int] GEN[int]{
	if t == nil {
		RETNIL
	}
	tr.E(900 + t.v)
	YFROM(§walk(t.l))
	YIELD(t.v)
	YFROM(§walk(t.r))
	RETNIL
}GEN

// empty yields nothing (a function is a generator only if it contains a yield statically)
func §empty() ITER[int] GEN[int]{
	tr.E(800)
	if tr.False() {
		YIELD(-1)
	}
	RETNIL
}GEN
`

type dgen struct {
	rng   *rand.Rand
	b     strings.Builder
	ind   int
	id    int
	feats map[string]bool
	twin  bool // spell delegation out as a range loop
	// enclosing breakable statements, innermost last: "loop", "loop-ypost" (its post statement yields), "switch"
	ctx []string
}

// nearestLoop returns the kind of the innermost enclosing loop ("" if none) and whether a switch lies in between.
func (g *dgen) nearestLoop() (kind string, throughSwitch bool) {
	for i := len(g.ctx) - 1; i >= 0; i-- {
		if g.ctx[i] == "switch" {
			throughSwitch = true
			continue
		}
		return g.ctx[i], throughSwitch
	}
	return "", throughSwitch
}

func (g *dgen) nid() int { g.id++; return g.id }
func (g *dgen) line(format string, a ...any) {
	g.b.WriteString(strings.Repeat("\t", g.ind))
	fmt.Fprintf(&g.b, format, a...)
	g.b.WriteByte('\n')
}

// delegate emits YFROM(x) or its spelled-out twin.
func (g *dgen) delegate(x string) {
	if g.twin {
		v := fmt.Sprintf("ʋ%d", g.nid())
		g.line("for %s := range OVER<<%s>>OVER {", v, x)
		g.line("\tYIELD(%s)", v)
		g.line("}")
	} else {
		g.nid()
		g.line("YFROM(%s)", x)
	}
}

func (g *dgen) delegExpr() string {
	switch g.rng.Intn(7) {
	case 0:
		g.feats["deleg:empty"] = true
		return "§empty()"
	case 1:
		d := 1 + g.rng.Intn(5)
		g.feats["deleg:chain"] = true
		return fmt.Sprintf("§chain(%d)", d)
	case 2:
		shapes := []string{"0", "100", "11000", "1011000", "110100100", "1110010001000", "10101010100"}
		g.feats["deleg:tree"] = true
		return fmt.Sprintf("func() ITER[int] { p, n := 0, 0; return §walk(§mk(%q, &p, &n)) }()", shapes[g.rng.Intn(len(shapes))])
	case 3:
		g.feats["deleg:nested-literal"] = true
		id := g.nid()
		return fmt.Sprintf("func() ITER[int] GEN[int]{\n%[1]s\ttr.E(%[2]d)\n%[1]s\tYIELD(%[3]d)\n%[1]s\tYFROM(§leaf(1, %[4]d))\n%[1]s\tRETNIL\n%[1]s}GEN()", strings.Repeat("\t", g.ind), id, id*1000, id*1000+100)
	case 4:
		g.feats["deleg:arg-effect"] = true
		return fmt.Sprintf("§leaf(tr.V(%d, %d), %d)", g.nid(), g.rng.Intn(3), g.nid()*1000)
	default:
		return fmt.Sprintf("§leaf(%d, %d)", g.rng.Intn(4), g.nid()*1000)
	}
}

func (g *dgen) stmt(depth int) {
	r := g.rng.Intn(100)
	if depth >= 2 && r >= 60 {
		r = g.rng.Intn(60)
	}
	switch {
	case r < 25:
		g.delegate(g.delegExpr())
	case r < 35:
		g.line("YIELD(tr.V(%d, %d))", g.nid(), g.id*7)
	case r < 42:
		g.line("tr.E(%d)", g.nid())
	case r < 50:
		// delegate advanced by hand before delegation
		it := fmt.Sprintf("it%d", g.nid())
		k := g.rng.Intn(4)
		g.line("%s := §leaf(3, %d)", it, g.nid()*1000)
		for i := 0; i < k; i++ {
			g.line("tr.V(%d, %s.MoveNext())", g.nid(), it)
			g.line("tr.V(%d, %s.Current())", g.nid(), it)
		}
		g.delegate(it)
		g.feats["deleg:partially-consumed"] = true
	case r < 56:
		// the same iterator delegated twice
		it := fmt.Sprintf("it%d", g.nid())
		g.line("%s := %s", it, g.delegExpr())
		g.delegate(it)
		g.line("tr.E(%d)", g.nid())
		g.delegate(it)
		g.feats["deleg:twice"] = true
	case r < 68:
		g.line("if tr.B(%d) {", g.nid())
		g.block(depth + 1)
		if g.rng.Intn(2) == 0 {
			g.line("} else {")
			g.block(depth + 1)
		}
		g.line("}")
		g.feats["deleg:in-if"] = true
	case r < 80:
		v := fmt.Sprintf("i%d", g.nid())
		kind := "loop"
		closeOuter := false
		if g.rng.Intn(3) == 0 && !g.twin {
			// delegation in the post statement (only the YieldFrom spelling is a simple statement)
			g.line("for %s := 0; %s < 2; YFROM(§leaf(1, %d)) {", v, v, g.nid()*1000)
			g.line("\t%s++", v)
			g.feats["deleg:in-for-post"] = true
			kind = "loop-ypost"
		} else {
			bound := 1 + g.rng.Intn(3)
			switch g.rng.Intn(9) {
			case 7, 8:
				// no init clause: the cursor lives outside the loop (a queue being drained); when this loop is the
				// first statement of an enclosing loop body the optimiser shares ONE For value between the passes
				g.line("q%s := 0", v)
				g.line("for r%s := 1; r%s <= 2; r%s++ {", v, v, v)
				g.ind++
				g.line("for ; q%s < r%s*%d; q%s++ {", v, v, bound, v)
				g.line("\ttr.R(%d, q%s)", g.nid(), v)
				closeOuter = true
				g.feats["deleg:loop-without-init"] = true
			case 0:
				// no condition, with a post statement: the loop is left by a break in front of the first yield
				g.line("for %s := 0; ; %s++ {", v, v)
				g.line("\tif tr.R(%d, %s) >= %d {", g.nid(), v, bound)
				g.line("\t\tbreak")
				g.line("\t}")
				g.feats["deleg:loop-without-condition"] = true
			case 1:
				// init only
				g.line("for %s := 0; ; {", v)
				g.line("\tif %s++; tr.R(%d, %s) > %d {", v, g.nid(), v, bound)
				g.line("\t\tbreak")
				g.line("\t}")
				g.feats["deleg:loop-without-condition"] = true
			case 2:
				// range over an integer expression whose value CHANGES during the loop (evaluated once)
				g.line("w%s := make([]int, %d)", v, bound)
				g.line("for %s := range len(w%s) {", v, v)
				g.line("\tw%s = append(w%s, tr.V(%d, %s))", v, v, g.nid(), v)
				g.feats["deleg:loop-range-int-changing-bound"] = true
			case 3:
				g.line("n%s := %d", v, bound)
				g.line("for %s := range n%s {", v, v)
				g.line("\tn%s += tr.V(%d, %s) + 1", v, g.nid(), v)
				g.feats["deleg:loop-range-int-changing-bound"] = true
			default:
				g.line("for %s := 0; %s < %d; %s++ {", v, v, bound, v)
			}
		}
		g.ctx = append(g.ctx, kind)
		g.block(depth + 1)
		g.ctx = g.ctx[:len(g.ctx)-1]
		g.line("}")
		if closeOuter {
			g.line("tr.E(%d)", g.nid())
			g.ind--
			g.line("}")
		}
		g.feats["deleg:in-loop"] = true
	case r < 84 && !g.twin:
		// delegation in the init clause of a loop / switch (only the YieldFrom spelling is a simple statement)
		switch g.rng.Intn(3) {
		case 0:
			g.line("for YFROM(§leaf(2, %d)); tr.B(%d); tr.E(%d) {", g.nid()*1000, g.nid(), g.nid())
			g.line("\ttr.E(%d)", g.nid())
			g.line("}")
		case 1:
			g.line("for YFROM(§leaf(1, %d)); tr.B(%d); tr.E(%d) {", g.nid()*1000, g.nid(), g.nid())
			g.ctx = append(g.ctx, "loop")
			g.block(depth + 1)
			g.ctx = g.ctx[:len(g.ctx)-1]
			g.line("}")
		default:
			g.line("switch YFROM(§chain(1)); tr.N(%d, 2) {", g.nid())
			g.line("case 0:")
			g.line("\ttr.E(%d)", g.nid())
			g.line("}")
		}
		g.feats["deleg:in-init-clause"] = true
	case r < 87:
		// a type switch whose case leaves it by break, with delegation before and after
		tv := fmt.Sprintf("tv%d", g.nid())
		g.line("switch %s := tr.Any(%d, 3).(type) {", tv, g.nid())
		g.line("case int:")
		g.line("\ttr.U(%s)", tv)
		g.line("\tif tr.B(%d) {", g.nid())
		g.line("\t\tbreak")
		g.line("\t}")
		g.ind++
		g.delegate(g.delegExpr())
		g.ind--
		g.line("case string:")
		g.line("\ttr.U(%s)", tv)
		g.line("default:")
		g.line("\ttr.U(%s)", tv)
		g.line("}")
		g.feats["deleg:typeswitch-break"] = true
	case r < 90:
		g.line("switch tr.N(%d, 3) {", g.nid())
		g.ctx = append(g.ctx, "switch")
		g.line("case 0:")
		g.block(depth + 1)
		g.line("case 1:")
		g.block(depth + 1)
		g.ctx = g.ctx[:len(g.ctx)-1]
		g.line("}")
		g.feats["deleg:in-switch"] = true
	case r < 96 && len(g.ctx) > 0:
		// break / continue that belong to an enclosing LOOP. Not generated: a break whose target is a switch
		// that contains yields and a continue of a loop whose post statement yields (the two known findings of C01)
		kind, through := g.nearestLoop()
		switch {
		case kind == "":
			g.line("tr.E(%d)", g.nid())
		case g.rng.Intn(2) == 0 && !through:
			g.line("if tr.B(%d) {", g.nid())
			g.line("\tbreak")
			g.line("}")
			g.feats["deleg:break"] = true
		case kind == "loop":
			g.line("if tr.B(%d) {", g.nid())
			g.line("\tcontinue")
			g.line("}")
			g.feats["deleg:continue"] = true
		default:
			g.line("tr.E(%d)", g.nid())
		}
	default:
		g.line("{")
		g.block(depth + 1)
		g.line("}")
	}
}

func (g *dgen) block(depth int) {
	g.ind++
	n := 1 + g.rng.Intn(3)
	for i := 0; i < n; i++ {
		g.stmt(depth)
	}
	g.ind--
}

func delegProgram(seed int64, twin bool) (string, []string) {
	g := &dgen{rng: rand.New(rand.NewSource(seed)), ind: 1, feats: map[string]bool{}, twin: twin}
	g.b.WriteString("func §gen() ITER[int] GEN[int]{\n")
	n := 2 + g.rng.Intn(4)
	for i := 0; i < n; i++ {
		g.stmt(0)
	}
	g.line("RETNIL")
	g.b.WriteString("}GEN\n")
	g.b.WriteString("func §E() { drv.Run[int](func() drv.It[int] { it := §gen(); return it }) }\n")
	var fs []string
	for f := range g.feats {
		fs = append(fs, f)
	}
	if twin {
		fs = append(fs, "deleg:spelled-out-twin")
	}
	sort.Strings(fs)
	return delegHelpers + g.b.String(), fs
}

// Deleg returns n delegating programs, each followed by its spelled-out twin.
func Deleg(n int, seed int64) []*e1.Program {
	rng := rand.New(rand.NewSource(seed))
	var out []*e1.Program
	for i := 0; len(out) < 2*n; i++ {
		s := rng.Int63()
		text, fs := delegProgram(s, false)
		if !strings.Contains(text[len(delegHelpers):], "YFROM(") {
			continue
		}
		st := render.Style(rng.Intn(int(render.NStyles)))
		h := sha256.Sum256([]byte(text))
		out = append(out, &e1.Program{Name: fmt.Sprintf("r:deleg:%d", i), Neutral: text, Features: fs, Shape: hex.EncodeToString(h[:])[:12], Style: st, MaxPaths: 32})
		// for-post delegation has no spelled-out form; the twin generator draws the same PRNG
		// sequence only if no such loop occurs, so regenerate and keep it only when it is well formed
		if !contains(fs, "deleg:in-for-post") {
			t2, fs2 := delegProgram(s, true)
			h2 := sha256.Sum256([]byte(t2))
			out = append(out, &e1.Program{Name: fmt.Sprintf("r:deleg:%d:twin", i), Neutral: t2, Features: fs2, Shape: hex.EncodeToString(h2[:])[:12], Style: st, MaxPaths: 32})
		}
	}
	return out
}

func contains(xs []string, x string) bool {
	for _, y := range xs {
		if y == x {
			return true
		}
	}
	return false
}
