package genr

import (
	"crypto/sha256"
	"encoding/hex"
	"fmt"
	"math/rand"
	"sort"
	"strings"

	"covr/internal/e1"
	"covr/internal/render"
)

// The consumer profile (C06): consumer-side code in processed files — range
// loops over iterators with break/continue/return, '=' binding, nested ranges,
// mixed pull and range use of one iterator, iterators stored in fields / maps /
// slices / arrays / channels / closures / generic boxes, generic and method
// generators. The generator side logs an effect before every yield, so an extra
// pull after break/return shows up as an extra generator event.

const consumerHelpers = `
func §src(n int, base int) ITER[int] GEN[int]{
	for i := 0; i < n; i++ {
		tr.E(base + i)
		YIELD(base + i)
	}
	tr.E(base + 99)
	RETNIL
}GEN

type §holder struct {
	name string
	it   ITER[int]
	more []ITER[int]
}

type §box[T any] struct{ v T }

func (b §box[T]) Get() T { return b.v }

type §coll struct{ xs []int }

func (c *§coll) Each() ITER[int] GEN[int]{
	for _, x := range c.xs {
		tr.E(7000 + x)
		YIELD(x)
	}
	RETNIL
}GEN

func §mapg[A, B any](it ITER[A], f func(A) B) ITER[B] GEN[B]{
	for v := range OVER<<it>>OVER {
		YIELD(f(v))
	}
	RETNIL
}GEN

func §first(it ITER[int]) int {
	for v := range OVER<<it>>OVER {
		return v
	}
	return -1
}

func §sum(it ITER[int], limit int) (total int) {
	for v := range OVER<<it>>OVER {
		if v >= limit {
			break
		}
		total += v
	}
	return
}

func §pass(it ITER[int]) ITER[int] { return it }
`

type cgen struct {
	rng   *rand.Rand
	b     strings.Builder
	ind   int
	id    int
	feats map[string]bool
}

func (g *cgen) nid() int { g.id++; return g.id }
func (g *cgen) line(format string, a ...any) {
	g.b.WriteString(strings.Repeat("\t", g.ind))
	fmt.Fprintf(&g.b, format, a...)
	g.b.WriteByte('\n')
}

// iterExpr produces an expression of iterator type and the statements needed before it.
func (g *cgen) iterExpr() string {
	base := g.nid() * 100
	n := 1 + g.rng.Intn(4)
	src := fmt.Sprintf("§src(%d, %d)", n, base)
	switch g.rng.Intn(12) {
	case 0:
		g.feats["iter-in:struct-field"] = true
		h := fmt.Sprintf("h%d", g.nid())
		g.line("%s := §holder{name: \"h\", it: %s}", h, src)
		return h + ".it"
	case 1:
		g.feats["iter-in:map"] = true
		m := fmt.Sprintf("m%d", g.nid())
		g.line("%s := map[string]ITER[int]{\"a\": %s}", m, src)
		return m + `["a"]`
	case 2:
		g.feats["iter-in:slice"] = true
		s := fmt.Sprintf("s%d", g.nid())
		g.line("%s := []ITER[int]{%s, §src(1, %d)}", s, src, base+50)
		return s + "[0]"
	case 3:
		g.feats["iter-in:array"] = true
		s := fmt.Sprintf("a%d", g.nid())
		g.line("var %s [2]ITER[int]", s)
		g.line("%s[1] = %s", s, src)
		return s + "[1]"
	case 4:
		g.feats["iter-in:chan"] = true
		s := fmt.Sprintf("ch%d", g.nid())
		g.line("%s := make(chan ITER[int], 1)", s)
		g.line("%s <- %s", s, src)
		return "<-" + s
	case 5:
		g.feats["iter-in:closure"] = true
		s := fmt.Sprintf("mk%d", g.nid())
		g.line("%s := func() ITER[int] { tr.E(%d); return %s }", s, g.nid(), src)
		return s + "()"
	case 6:
		g.feats["iter-in:func-slice"] = true
		s := fmt.Sprintf("fs%d", g.nid())
		g.line("%s := []func() ITER[int]{func() ITER[int] { return %s }}", s, src)
		return s + "[0]()"
	case 7:
		g.feats["iter-in:generic-box"] = true
		s := fmt.Sprintf("bx%d", g.nid())
		g.line("%s := §box[ITER[int]]{v: %s}", s, src)
		return s + ".Get()"
	case 8:
		g.feats["generic-generator"] = true
		return fmt.Sprintf("§mapg(%s, func(x int) int { return x*2 + 1 })", src)
	case 9:
		g.feats["method-generator"] = true
		return fmt.Sprintf("(&§coll{[]int{%d, %d, %d}}).Each()", base+1, base+2, base+3)
	case 10:
		g.feats["iter-as-param-result"] = true
		return fmt.Sprintf("§pass(%s)", src)
	default:
		return src
	}
}

// bodyDecl sometimes puts a top-level declaration into the loop body (:=, var, or a
// redeclaration of the loop variable itself), which decides how the lowering scopes the body.
func (g *cgen) bodyDecl(v string) {
	switch g.rng.Intn(8) {
	case 0:
		g.line("d%d := %s * 2", g.nid(), v)
		g.line("tr.V(%d, d%d)", g.nid(), g.id-1)
		g.feats["body-declares"] = true
	case 1:
		g.line("var q%d = %s + 1", g.nid(), v)
		g.line("tr.V(%d, q%d)", g.nid(), g.id-1)
		g.feats["body-declares"] = true
	case 2:
		// the body (its own scope) declares a NEW variable named like the loop variable together with another
		// new one; a closure and a pointer taken before keep denoting the loop variable
		id := g.nid()
		g.line("get%d, ptr%d := func() int { return %s }, &%s", id, id, v, v)
		g.line("h%d, %s := %s/2, %s*10", id, v, v, v)
		g.line("tr.V(%d, h%d+%s)", g.nid(), id, v)
		g.line("tr.V(%d, get%d()+*ptr%d)", g.nid(), id, id)
		g.feats["body-declares"] = true
		g.feats["body-redeclares-loop-var-partially"] = true
	case 3:
		// a constant named like the loop variable (the rest of the body reads the constant)
		id := g.nid()
		g.line("get%d := func() int { return %s }", id, v)
		g.line("const %s = %d", v, 70+g.rng.Intn(9))
		g.line("tr.V(%d, %s+get%d())", g.nid(), v, id)
		g.feats["body-declares"] = true
	}
}

func (g *cgen) exitStmt(inFuncWithResult bool) {
	switch g.rng.Intn(4) {
	case 0:
		g.line("if tr.B(%d) {", g.nid())
		g.line("\tbreak")
		g.line("}")
		g.feats["break"] = true
	case 1:
		g.line("if tr.B(%d) {", g.nid())
		g.line("\ttr.E(%d)", g.nid())
		g.line("\tcontinue")
		g.line("}")
		g.feats["continue"] = true
	case 2:
		g.line("if tr.B(%d) {", g.nid())
		g.line("\treturn")
		g.line("}")
		g.feats["return-in-range"] = true
	}
}

func (g *cgen) step(it string, depth int) {
	switch r := g.rng.Intn(100); {
	case r < 30:
		// range with := binding
		v := fmt.Sprintf("v%d", g.nid())
		g.line("for %s := range OVER<<%s>>OVER {", v, it)
		g.ind++
		g.line("tr.V(%d, %s)", g.nid(), v)
		g.bodyDecl(v)
		g.exitStmt(false)
		if depth < 1 && g.rng.Intn(4) == 0 {
			inner := g.iterExpr()
			w := fmt.Sprintf("w%d", g.nid())
			g.line("for %s := range OVER<<%s>>OVER {", w, inner)
			g.line("\ttr.V(%d, %s*1000+%s)", g.nid(), v, w)
			if g.rng.Intn(2) == 0 {
				g.line("\tif tr.B(%d) {", g.nid())
				g.line("\t\tbreak")
				g.line("\t}")
			}
			g.line("}")
			g.feats["nested-range"] = true
		}
		g.line("tr.E(%d)", g.nid())
		g.ind--
		g.line("}")
		g.feats["range-define"] = true
	case r < 45:
		// '=' binding: the final value of v is observable
		v := fmt.Sprintf("v%d", g.nid())
		g.line("%s := -1", v)
		g.line("for %s = range OVER<<%s>>OVER {", v, it)
		g.ind++
		g.line("tr.V(%d, %s)", g.nid(), v)
		g.bodyDecl(v)
		g.exitStmt(false)
		g.ind--
		g.line("}")
		g.line("tr.V(%d, %s)", g.nid(), v)
		g.feats["range-assign"] = true
	case r < 65:
		// pull by hand
		k := 1 + g.rng.Intn(2)
		for i := 0; i < k; i++ {
			g.line("tr.V(%d, %s.MoveNext())", g.nid(), it)
			g.line("tr.V(%d, %s.Current())", g.nid(), it)
		}
		g.feats["pull"] = true
	case r < 70 && !strings.ContainsAny(it, "([<"):
		// pull-style closures over the iterator VARIABLE, which is reassigned afterwards
		n, c := fmt.Sprintf("next%d", g.nid()), fmt.Sprintf("cur%d", g.nid())
		g.line("%s := func() bool { return %s.MoveNext() }", n, it)
		g.line("%s := func() int { return %s.Current() }", c, it)
		g.line("tr.V(%d, %s())", g.nid(), n)
		g.line("%s = §src(2, %d)", it, g.nid()*100)
		g.line("for %s() {", n)
		g.line("\ttr.V(%d, %s())", g.nid(), c)
		g.line("}")
		g.feats["pull-closures"] = true
	case r < 75:
		g.line("tr.V(%d, §first(%s))", g.nid(), it)
		g.feats["return-from-range-in-func"] = true
	case r < 85:
		g.line("tr.V(%d, §sum(%s, %d))", g.nid(), it, 100+g.rng.Intn(400))
		g.feats["break-in-func"] = true
	default:
		// range whose body ignores the value but counts (the `for range it` form without a
		// variable is rejected by the compiler with a diagnostic and is exercised under C12)
		c := fmt.Sprintf("n%d", g.nid())
		v := fmt.Sprintf("v%d", g.nid())
		g.line("%s := 0", c)
		g.line("for %s := range OVER<<%s>>OVER {", v, it)
		g.line("\ttr.U(%s)", v)
		g.line("\t%s++", c)
		g.line("\tif %s == 2 {", c)
		g.line("\t\tbreak")
		g.line("\t}")
		g.line("}")
		g.line("tr.V(%d, %s)", g.nid(), c)
		g.feats["range-counting"] = true
	}
}

// Consumer returns n PRNG consumer programs.
func Consumer(n int, seed int64) []*e1.Program {
	rng := rand.New(rand.NewSource(seed))
	var out []*e1.Program
	for i := 0; i < n; i++ {
		g := &cgen{rng: rng, ind: 1, feats: map[string]bool{}}
		g.b.WriteString("func §E() {\n")
		nit := 1 + rng.Intn(2)
		for k := 0; k < nit; k++ {
			// one iterator, used by several steps: pull and range code interoperate on the same value
			name := fmt.Sprintf("it%d", g.nid())
			expr := g.iterExpr()
			g.line("%s := %s", name, expr)
			steps := 2 + rng.Intn(3)
			for s := 0; s < steps; s++ {
				g.step(name, 0)
			}
			// after everything: the iterator's state is still observable
			g.line("tr.V(%d, %s.MoveNext())", g.nid(), name)
		}
		g.b.WriteString("}\n")
		text := consumerHelpers + g.b.String()
		var fs []string
		for f := range g.feats {
			fs = append(fs, f)
		}
		sort.Strings(fs)
		h := sha256.Sum256([]byte(text))
		out = append(out, &e1.Program{
			Name: fmt.Sprintf("r:consumer:%d", i), Neutral: text, Features: fs,
			Shape: hex.EncodeToString(h[:])[:12], Style: render.Style(rng.Intn(int(render.NStyles))),
			MaxPaths: 40, Hist: []int{},
		})
	}
	return out
}

// ---------------------------------------------------------------- transformer generators
//
// Generators that CONSUME other iterators: range loops over iterators whose bodies yield, with break / continue /
// return in front of and behind the yield, in every statement context (if, switch / type-switch clause, outer loop,
// block, nested transformer loop), `=` binding, hand pulls, and statements after each loop (so that a loop that
// is left the wrong way — or not at all — is visible in the values that follow).
//
// Never generated: a break that targets a yielding switch and a continue of a loop whose post statement yields
// (the two known findings of C01): break / continue only occur directly in the range loops they belong to, and
// outer loops have plain post statements.

type tgen struct {
	cgen
	left int
}

func (g *tgen) exit(afterYield bool) {
	if g.rng.Intn(3) == 0 {
		return
	}
	kind := []string{"break", "continue", "RETNIL"}[g.rng.Intn(3)]
	switch g.rng.Intn(3) {
	case 0:
		g.line("if tr.B(%d) {", g.nid())
		g.line("\ttr.E(%d)", g.nid())
		g.line("\t%s", kind)
		g.line("}")
	case 1:
		// the exit sits in a clause of a yield-free switch inside the loop body: `continue` / return pass
		// through it, break would leave the switch only and is not generated here
		if kind == "break" {
			kind = "continue"
		}
		g.line("switch tr.N(%d, 2) {", g.nid())
		g.line("case 0:")
		g.line("\t%s", kind)
		g.line("}")
	default:
		g.line("if tr.B(%d) {", g.nid())
		g.line("\t%s", kind)
		g.line("} else {")
		g.line("\ttr.E(%d)", g.nid())
		g.line("}")
	}
	g.feats["xf:"+strings.ToLower(strings.TrimPrefix(kind, "RET"))+map[bool]string{true: "-after-yield", false: "-before-yield"}[afterYield]] = true
}

func (g *tgen) loop(depth int) {
	it := g.iterExpr()
	v := fmt.Sprintf("v%d", g.nid())
	assign := g.rng.Intn(5) == 0
	if assign {
		g.line("%s := -1", v)
		g.line("for %s = range OVER<<%s>>OVER {", v, it)
		g.feats["xf:assign-form"] = true
	} else {
		g.line("for %s := range OVER<<%s>>OVER {", v, it)
	}
	g.ind++
	g.line("tr.V(%d, %s)", g.nid(), v)
	g.exit(false)
	switch g.rng.Intn(6) {
	case 0:
		// no yield in this loop at all (the loop stays a native loop over the generated iterator)
		g.line("tr.E(%d)", g.nid())
		g.feats["xf:yield-free-loop"] = true
	case 1:
		g.line("if tr.B(%d) {", g.nid())
		g.line("\tYIELD(%s*10 + 1)", v)
		g.line("}")
	case 2:
		if depth < 2 && g.left > 0 {
			g.left--
			g.loop(depth + 1)
			g.feats["xf:nested"] = true
		} else {
			g.line("YIELD(%s * 10)", v)
		}
	default:
		g.line("YIELD(%s * 10)", v)
	}
	switch g.rng.Intn(6) {
	case 0:
		// the branch that yields also ends the iteration: nothing behind it may run for this element
		g.line("if tr.B(%d) {", g.nid())
		g.line("\tYIELD(%s*10 + 2)", v)
		g.line("\tcontinue")
		g.line("}")
		g.feats["xf:yield-then-continue-in-branch"] = true
	case 1:
		g.line("if tr.B(%d) {", g.nid())
		g.line("\tYIELD(%s*10 + 3)", v)
		g.line("\tbreak")
		g.line("} else {")
		g.line("\ttr.E(%d)", g.nid())
		g.line("}")
		g.feats["xf:yield-then-break-in-branch"] = true
	case 2:
		// a range the compiler leaves native (pointer to array / func / labelled) with its own break / continue,
		// inside the consumer loop
		arr := fmt.Sprintf("arr%d", g.nid())
		g.line("%s := [4]int{1, 2, 3, 4}", arr)
		switch g.rng.Intn(3) {
		case 0:
			g.line("for _, w := range &%s {", arr)
		case 1:
			g.line("for w := range func(yield func(int) bool) {")
			g.line("\tfor _, x := range %s {", arr)
			g.line("\t\tif !yield(x) {")
			g.line("\t\t\treturn")
			g.line("\t\t}")
			g.line("\t}")
			g.line("} {")
		default:
			g.line("for w := range %s[0] + 3 {", arr)
		}
		g.line("\tif w == 2 && tr.B(%d) {", g.nid())
		g.line("\t\tcontinue")
		g.line("\t}")
		g.line("\tif w == 3 && tr.B(%d) {", g.nid())
		g.line("\t\tbreak")
		g.line("\t}")
		g.line("\ttr.V(%d, w)", g.nid())
		g.line("}")
		g.feats["xf:native-range-with-exits-inside"] = true
	}
	g.exit(true)
	g.line("tr.E(%d)", g.nid())
	g.ind--
	g.line("}")
	if assign {
		g.line("YIELD(%s)", v)
	}
}

func (g *tgen) stmt(depth int) {
	g.left--
	switch r := g.rng.Intn(100); {
	case r < 12:
		g.line("tr.E(%d)", g.nid())
	case r < 24:
		g.line("YIELD(%d)", -g.nid())
	case r < 50 || depth >= 3:
		g.loop(depth)
		if g.rng.Intn(2) == 0 {
			g.line("YIELD(%d)", -g.nid())
		}
	case r < 60:
		g.line("if tr.B(%d) {", g.nid())
		g.block(depth + 1)
		if g.rng.Intn(2) == 0 {
			g.line("} else {")
			g.block(depth + 1)
		}
		g.line("}")
		g.feats["xf:in-if"] = true
	case r < 72:
		if g.rng.Intn(3) == 0 {
			tv := fmt.Sprintf("t%d", g.nid())
			g.line("switch %s := tr.Any(%d, 2).(type) {", tv, g.nid())
			g.line("case int:")
			g.line("\ttr.U(%s)", tv)
			g.block(depth + 1)
			g.line("default:")
			g.line("\ttr.U(%s)", tv)
		} else {
			g.line("switch tr.N(%d, 3) {", g.nid())
			g.line("case 0:")
			g.block(depth + 1)
			g.line("case 1:")
			g.block(depth + 1)
		}
		g.line("}")
		g.feats["xf:in-switch"] = true
	case r < 84:
		i := fmt.Sprintf("i%d", g.nid())
		switch g.rng.Intn(3) {
		case 0:
			g.line("for %s := 0; %s < 2; %s++ {", i, i, i)
		case 1:
			g.line("for %s := range 2 {", i)
			g.line("\ttr.U(%s)", i)
		default:
			g.line("%s := 0", i)
			g.line("for %s < 2 {", i)
			g.line("\t%s++", i)
		}
		g.block(depth + 1)
		g.line("}")
		g.feats["xf:in-outer-loop"] = true
	case r < 90:
		g.line("{")
		g.block(depth + 1)
		g.line("}")
	default:
		// hand pull inside the generator
		it := fmt.Sprintf("p%d", g.nid())
		g.line("%s := %s", it, g.iterExpr())
		g.line("if %s.MoveNext() {", it)
		g.line("\tYIELD(%s.Current() + 5)", it)
		g.line("}")
		g.line("for %s.MoveNext() {", it)
		g.line("\tif tr.B(%d) {", g.nid())
		g.line("\t\tbreak")
		g.line("\t}")
		g.line("\tYIELD(%s.Current())", it)
		g.line("}")
		g.line("YFROM(%s)", it)
		g.feats["xf:hand-pull"] = true
	}
}

func (g *tgen) block(depth int) {
	g.ind++
	n := 1 + g.rng.Intn(2)
	for i := 0; i < n && g.left > 0; i++ {
		g.stmt(depth)
	}
	if n == 0 || g.left <= 0 {
		g.line("tr.E(%d)", g.nid())
	}
	g.ind--
}

// Transformer returns n PRNG generators that consume other iterators.
func Transformer(n int, seed int64) []*e1.Program {
	rng := rand.New(rand.NewSource(seed))
	var out []*e1.Program
	for i := 0; i < n; i++ {
		g := &tgen{cgen: cgen{rng: rng, ind: 1, feats: map[string]bool{}}, left: 5 + rng.Intn(6)}
		g.b.WriteString("func §gen() ITER[int] GEN[int]{\n")
		k := 2 + rng.Intn(3)
		for s := 0; s < k; s++ {
			g.stmt(0)
		}
		g.line("YIELD(%d)", -g.nid())
		g.line("RETNIL")
		g.b.WriteString("}GEN\n")
		text := consumerHelpers + g.b.String() + "func §E() { drv.Run[int](func() drv.It[int] { it := §gen(); return it }) }\n"
		var fs []string
		for f := range g.feats {
			fs = append(fs, f)
		}
		sort.Strings(fs)
		h := sha256.Sum256([]byte(text))
		out = append(out, &e1.Program{
			Name: fmt.Sprintf("r:xform:%d", i), Neutral: text, Features: fs,
			Shape: hex.EncodeToString(h[:])[:12], Style: render.Style(rng.Intn(int(render.NStyles))),
			MaxPaths: 48, MaxMoves: 40,
		})
	}
	return out
}
