// Package genr generates E1 programs: an abstract statement tree is numbered,
// tagged with features, hashed by shape and rendered to neutral text. Streams
// are deterministic functions of the seed (fixed case lists, never time budgets).
package genr

import (
	"crypto/sha256"
	"encoding/hex"
	"fmt"
	"math/rand"
	"sort"
	"strings"

	"covr/internal/e1"
	"covr/internal/render"
)

// S is a statement of the abstract program.
type S struct {
	K     string // eff yield if switch for block break continue return
	ID    int
	Form  string  // variant of the statement kind
	A     []*S    // then / loop body / block body
	B     []*S    // else branch (nil = none)
	Chain bool    // B is a single if, rendered as "else if"
	Cases [][]*S  // switch case bodies
	Def   bool    // the last case is "default"
	DefAt int     // textual position of the default clause: 0 = last, j > 0 = printed as clause number j (1 = first)
	Init  string  // "", "decl", "yield", "eff"
	Post  string  // for: "", "inc", "yield", "eff"
	N     int     // small parameter (loop bound, ...)
	Code  string  // raw statement text (kind "raw": injected unsupported constructs, C12)
}

func (s *S) clone() *S {
	if s == nil {
		return nil
	}
	c := *s
	c.A = cloneList(s.A)
	c.B = cloneList(s.B)
	if s.Cases != nil {
		c.Cases = make([][]*S, len(s.Cases))
		for i := range s.Cases {
			c.Cases[i] = cloneList(s.Cases[i])
			if c.Cases[i] == nil {
				c.Cases[i] = []*S{}
			}
		}
	}
	return &c
}

func cloneList(xs []*S) []*S {
	if xs == nil {
		return nil
	}
	out := make([]*S, len(xs))
	for i, x := range xs {
		out[i] = x.clone()
	}
	return out
}

func number(xs []*S, n *int) {
	for _, s := range xs {
		*n++
		s.ID = *n
		number(s.A, n)
		number(s.B, n)
		for _, c := range s.Cases {
			number(c, n)
		}
	}
}

// Size is the number of statement nodes.
func Size(xs []*S) int {
	n := 0
	for _, s := range xs {
		n++
		n += Size(s.A) + Size(s.B)
		for _, c := range s.Cases {
			n += Size(c)
		}
	}
	return n
}

func shape(xs []*S, b *strings.Builder) {
	b.WriteByte('[')
	for _, s := range xs {
		fmt.Fprintf(b, "%s/%s/%s/%s/%v/%v/%d/%s", s.K, s.Form, s.Init, s.Post, s.Chain, s.Def, s.N+100*s.DefAt, s.Code)
		shape(s.A, b)
		if s.B != nil {
			b.WriteString("else")
			shape(s.B, b)
		}
		for _, c := range s.Cases {
			b.WriteString("case")
			shape(c, b)
		}
		b.WriteByte(';')
	}
	b.WriteByte(']')
}

// ShapeHash identifies the tree with ids erased.
func ShapeHash(xs []*S, salt string) string {
	var b strings.Builder
	b.WriteString(salt)
	shape(xs, &b)
	h := sha256.Sum256([]byte(b.String()))
	return hex.EncodeToString(h[:])[:12]
}

func containsYield(xs []*S) bool {
	for _, s := range xs {
		if s.K == "yield" || s.K == "yfrom" || s.Init == "yield" || s.Init == "yfrom" || s.Post == "yield" || (s.K == "raw" && strings.Contains(s.Code, "YIELD(")) {
			return true
		}
		if containsYield(s.A) || containsYield(s.B) {
			return true
		}
		for _, c := range s.Cases {
			if containsYield(c) {
				return true
			}
		}
	}
	return false
}

type fctx struct {
	breakTo *S // innermost breakable (for / switch)
	loop    *S // innermost loop
	// a yield-containing statement precedes the current position inside the current case clause of
	// breakTo (so the position lies in a continuation thunk, not in the native switch statement)
	afterYield bool
}

// Features computes the feature tags of a tree.
func Features(xs []*S) []string {
	f := map[string]bool{}
	features(xs, fctx{}, f, true)
	out := make([]string, 0, len(f))
	for k := range f {
		out = append(out, k)
	}
	sort.Strings(out)
	return out
}

func features(xs []*S, c fctx, f map[string]bool, top bool) {
	seenYield := false
	for i, s := range xs {
		last := i == len(xs)-1
		if i > 0 && containsYield(xs[i-1:i]) {
			c.afterYield = true
		}
		// a statement that contains a yield is rewritten as a whole: every branch of it ends in a return of a Seq,
		// so a break nested in it is monadic as well
		inner := c
		if containsYield(xs[i : i+1]) {
			inner.afterYield = true
		}
		switch s.K {
		case "yield":
			f["yield:"+s.Form] = true
			seenYield = true
		case "eff":
			f["eff:"+s.Form] = true
		case "if":
			f["if"] = true
			if s.B != nil {
				f["if-else"] = true
			}
			if s.Chain {
				f["else-if"] = true
			}
			if s.Init != "" {
				f["if-init:"+s.Init] = true
			}
			features(s.A, inner, f, false)
			features(s.B, inner, f, false)
		case "switch":
			f["switch:"+s.Form] = true
			if s.Init != "" {
				f["switch-init:"+s.Init] = true
			}
			if s.Def && s.DefAt > 0 && s.DefAt < len(s.Cases) {
				f["switch-default-not-last"] = true
			}
			if containsYield([]*S{s}) {
				f["yielding-switch"] = true
				if last && c.loop != nil && c.breakTo == c.loop {
					f["yielding-switch-ends-loop-body"] = true
				}
			}
			for _, cs := range s.Cases {
				if n := len(cs); n > 0 && cs[n-1].K == "if" && containsYield(cs[n-1:]) {
					f["yielding-if-last-in-case"] = true
				}
				features(cs, fctx{breakTo: s, loop: c.loop, afterYield: s.Init == "yield" || s.Init == "yfrom"}, f, false)
			}
		case "for":
			f["for:"+s.Form] = true
			if s.Init != "" {
				f["for-init:"+s.Init] = true
			}
			if s.Post != "" {
				f["for-post:"+s.Post] = true
			}
			if containsYield([]*S{s}) {
				f["yielding-loop"] = true
			} else {
				f["native-loop"] = true
				if seenYield || !top {
					f["native-loop-after-yield-or-nested"] = true
				}
			}
			features(s.A, fctx{breakTo: s, loop: s}, f, false)
		case "block":
			f["block"] = true
			features(s.A, inner, f, false)
		case "break":
			f["break"] = true
			if c.breakTo != nil && c.breakTo.K == "switch" {
				f["break-in-switch"] = true
				if containsYield([]*S{c.breakTo}) {
					if c.afterYield {
						// the known finding of C01: the break sits in a continuation thunk of the case
						f["break-targets-yielding-switch"] = true
					} else {
						// before any yield of its clause the break still belongs to the native switch statement
						f["break-in-yielding-switch-before-any-yield"] = true
					}
				}
			} else if c.breakTo != nil {
				if containsYield([]*S{c.breakTo}) {
					f["break-in-yielding-loop"] = true
				} else {
					f["break-in-native-loop"] = true
				}
			}
		case "continue":
			f["continue"] = true
			if c.loop != nil && c.loop.Post == "yield" {
				f["continue-in-loop-with-yielding-post"] = true
			}
			if c.loop != nil && c.loop.Post != "" && c.loop.Post != "yield" {
				f["continue-with-post"] = true
			}
			if c.breakTo != nil && c.breakTo.K == "switch" {
				f["continue-inside-switch"] = true
			}
		case "raw":
			f["unsupported:"+s.Form] = true
			// an injected construct may carry a `continue` of the enclosing loop: the known finding about
			// loops whose post statement yields applies to it as well
			if strings.Contains(s.Code, "continue") && c.loop != nil && c.loop.Post == "yield" {
				f["continue-in-loop-with-yielding-post"] = true
			}
		case "panic":
			f["panic:"+s.Form] = true
			if c.loop != nil {
				f["panic-in-loop"] = true
			}
			if c.breakTo != nil && c.breakTo.K == "switch" {
				f["panic-in-switch"] = true
			}
			if s.N == 0 {
				f["panic-unguarded"] = true
			}
		case "return":
			f["return"] = true
			if c.loop != nil {
				f["return-in-loop"] = true
			}
		}
	}
}

// ---------------------------------------------------------------- rendering

type rctx struct {
	b     *strings.Builder
	ind   int
	depth int // loop depth (names loop variables)
}

func (r *rctx) line(format string, a ...any) {
	r.b.WriteString(strings.Repeat("\t", r.ind))
	fmt.Fprintf(r.b, format, a...)
	r.b.WriteByte('\n')
}

func yieldExpr(s *S) string {
	switch s.Form {
	case "lit":
		return fmt.Sprint(s.ID * 10)
	case "var":
		return "a"
	case "call1": // a call with exactly ONE literal argument
		return fmt.Sprintf("tr.W(%d)", s.ID)
	case "boom1": // a call with exactly one literal argument that panics when the tape says so
		return fmt.Sprintf("tr.Boom(%d)", s.ID)
	case "neg": // unary operators on a variable
		return "-a"
	case "pos":
		return "+a"
	case "paren":
		return "(a)"
	case "conv": // a conversion of a variable
		return "int(int64(a))"
	case "deref":
		return "*(&a)"
	case "index":
		return "[]int{a, b}[0]"
	case "iife":
		return "func() int { return a }()"
	case "negcall": // unary operator applied to an effectful call
		return fmt.Sprintf("-tr.W(%d)", s.ID)
	case "convcall": // a conversion-looking call around an effectful call with one literal argument
		return fmt.Sprintf("int(tr.W(%d))", s.ID)
	case "glob": // a package-level variable declared in ANOTHER file of the package (reg.go)
		return "SharedG"
	case "expr":
		return fmt.Sprintf("a*1000 + %d", s.ID)
	default: // call
		return fmt.Sprintf("tr.V(%d, %d+tr.Occ())", s.ID, s.ID*1000)
	}
}

func yieldStmt(id int, form string) string {
	return "YIELD(" + yieldExpr(&S{ID: id, Form: form}) + ")"
}

func (r *rctx) stmts(xs []*S) {
	for _, s := range xs {
		r.stmt(s)
	}
}

func (r *rctx) block(xs []*S) {
	r.ind++
	r.stmts(xs)
	r.ind--
}

func simple(kind string, id int) string {
	switch kind {
	case "yield":
		return yieldStmt(id, "call")
	case "eff":
		return fmt.Sprintf("tr.E(%d)", id)
	}
	return ""
}

func (r *rctx) stmt(s *S) {
	switch s.K {
	case "eff":
		switch s.Form {
		case "mut":
			r.line("a, b = b, a+b")
		case "globmut":
			r.line("SharedG += %d", 3+s.ID%5)
		case "closure":
			r.line("f%d := func(x int) int { a += x; return a }", s.ID)
			r.line("tr.V(%d, f%d(1))", s.ID, s.ID)
		case "vardecl":
			r.line("var z%d, y%d int = a, b", s.ID, s.ID)
			r.line("var q%d = tr.V(%d, z%d+y%d)", s.ID, s.ID, s.ID, s.ID)
			r.line("a = q%d %% 997", s.ID)
		case "multi":
			r.line("a, b = b%%997, (a+b)%%997")
			r.line("b++")
			r.line("a <<= 1")
			r.line("a %%= 1009")
		case "emptyblock":
			r.line("{")
			r.line("}")
			r.line(";")
			r.line("tr.E(%d)", s.ID)
		case "chan":
			r.line("ch%d := make(chan int, 1)", s.ID)
			r.line("ch%d <- a + 1", s.ID)
			r.line("a = tr.V(%d, <-ch%d)", s.ID, s.ID)
		case "goclosure":
			r.line("done%d := make(chan int)", s.ID)
			r.line("go func(x int) { done%d <- x * 2 }(a)", s.ID)
			r.line("a = tr.V(%d, <-done%d) %% 991", s.ID, s.ID)
		case "structlit":
			r.line("type pt%d struct{ x, y int }", s.ID)
			r.line("p%d := &pt%d{x: a, y: b}", s.ID, s.ID)
			r.line("p%d.x += p%d.y", s.ID, s.ID)
			r.line("a = tr.V(%d, p%d.x) %% 983", s.ID, s.ID)
		case "recover":
			r.line("func() {")
			r.line("\tdefer func() { tr.V(%d, recover() != nil) }()", s.ID)
			r.line("\tvar m%d map[int]int", s.ID)
			r.line("\tm%d[a] = 1", s.ID)
			r.line("}()")
		case "set":
			r.line("a = tr.V(%d, a+1)", s.ID)
		default:
			r.line("tr.E(%d)", s.ID)
		}
	case "yield":
		r.line("YIELD(%s)", yieldExpr(s))
	case "block":
		r.line("{")
		r.block(s.A)
		r.line("}")
	case "if":
		r.ifStmt(s, "if ")
	case "switch":
		r.switchStmt(s)
	case "for":
		r.forStmt(s)
	case "raw":
		for _, l := range strings.Split(strings.Trim(strings.ReplaceAll(s.Code, "#", fmt.Sprint(s.ID)), "\n"), "\n") {
			r.line("%s", l)
		}
	case "panic":
		guard := s.N != 0
		if guard {
			r.line("if tr.B(%d) {", s.ID*10)
			r.ind++
		}
		switch s.Form {
		case "index":
			r.line("tr.E(%d)", s.ID*10+1)
			r.line("tr.U([]int{1}[2+tr.Zero()])")
		case "nilmap":
			r.line("var pm%d map[int]int", s.ID)
			r.line("pm%d[%d] = 1", s.ID, s.ID)
		case "div":
			r.line("tr.U(%d / tr.Zero())", s.ID)
		case "blank-index":
			// panicking expressions without any call, assigned to the blank identifier
			r.line("tr.E(%d)", s.ID*10+1)
			r.line("bx%d := []int{1, 2}", s.ID)
			r.line("_ = bx%d[a%%7+2]", s.ID)
		case "blank-deref":
			r.line("var bp%d *int", s.ID)
			r.line("_ = *bp%d", s.ID)
		case "blank-assert":
			r.line("var bv%d any = a", s.ID)
			r.line("_ = bv%d.(string)", s.ID)
		case "blank-div":
			r.line("bz%d := a - a", s.ID)
			r.line("_ = %d / bz%d", s.ID, s.ID)
		case "error":
			r.line("panic(tr.V(%d, fmt.Errorf(\"err%d\")))", s.ID, s.ID)
		case "nil":
			r.line("tr.E(%d)", s.ID*10+1)
			r.line("panic(nil)")
		case "nilerr":
			r.line("var pe%d error", s.ID)
			r.line("panic(pe%d)", s.ID)
		default:
			r.line("panic(tr.V(%d, \"boom%d\"))", s.ID, s.ID)
		}
		if guard {
			r.ind--
			r.line("}")
		}
	case "break":
		r.line("break")
	case "continue":
		r.line("continue")
	case "return":
		r.line("RETNIL")
	default:
		panic("genr: unknown statement " + s.K)
	}
}

func (r *rctx) ifStmt(s *S, head string) {
	cond := fmt.Sprintf("tr.B(%d)", s.ID*10)
	switch s.Init {
	case "decl":
		cond = fmt.Sprintf("c%d := tr.B(%d); c%d", s.ID, s.ID*10, s.ID)
	case "eff":
		cond = fmt.Sprintf("tr.E(%d); tr.B(%d)", s.ID*10+1, s.ID*10)
	case "assign":
		cond = fmt.Sprintf("a = a + %d; tr.B(%d) || a < 0", s.ID, s.ID*10)
	case "yield": // unsupported (C12)
		cond = fmt.Sprintf("%s; tr.B(%d)", yieldStmt(s.ID*10+1, "call"), s.ID*10)
	}
	r.line("%s%s {", head, cond)
	r.block(s.A)
	switch {
	case s.B == nil:
		r.line("}")
	case s.Chain && len(s.B) == 1 && s.B[0].K == "if":
		// "} else if ... {" : render the close brace and the chained if on one line
		r.b.WriteString(strings.Repeat("\t", r.ind))
		r.b.WriteString("} else ")
		save := r.ind
		r.ifChained(s.B[0])
		r.ind = save
	default:
		r.line("} else {")
		r.block(s.B)
		r.line("}")
	}
}

func (r *rctx) ifChained(s *S) {
	// like ifStmt but the first line is not indented (it continues "} else ")
	var sub strings.Builder
	rr := &rctx{b: &sub, ind: r.ind, depth: r.depth}
	rr.ifStmt(s, "if ")
	text := sub.String()
	r.b.WriteString(strings.TrimLeft(text, "\t"))
}

func (r *rctx) switchStmt(s *S) {
	init := ""
	switch s.Init {
	case "decl":
		init = fmt.Sprintf("w%d := %d; ", s.ID, s.ID)
	case "yield":
		init = yieldStmt(s.ID*10+2, "call") + "; "
	case "yfrom":
		init = fmt.Sprintf("YFROM(§two(%d)); ", s.ID*1000)
	case "eff":
		init = fmt.Sprintf("tr.E(%d); ", s.ID*10+2)
	}
	n := len(s.Cases)
	ncase := n
	if s.Def {
		ncase = n - 1
	}
	switch s.Form {
	case "tagless":
		r.line("switch %s{", init)
	case "type":
		r.line("switch %st%d := tr.Any(%d, %d).(type) {", init, s.ID, s.ID*10, ncase+1)
	default:
		r.line("switch %str.N(%d, %d) {", init, s.ID*10, ncase+1)
	}
	types := []string{"int", "string", "bool", "nil"}
	// textual order of the clauses: Go allows the default clause anywhere
	order := make([]int, 0, n)
	for i := 0; i < n; i++ {
		order = append(order, i)
	}
	if s.Def && s.DefAt > 0 && s.DefAt < n {
		order = append(order[:s.DefAt-1], append([]int{n - 1}, order[s.DefAt-1:n-1]...)...)
	}
	for _, i := range order {
		c := s.Cases[i]
		switch {
		case s.Def && i == n-1:
			r.line("default:")
		case s.Form == "tagless":
			r.line("case tr.B(%d):", s.ID*10+3+i)
		case s.Form == "type":
			if s.N == 7 && i == 0 && ncase == 1 {
				r.line("case int, string:") // several types in one clause: the binding keeps the interface type
			} else {
				r.line("case %s:", types[i%len(types)])
			}
		default:
			if s.N == 7 && i == 0 {
				r.line("case %d, %d:", i, 100+i) // several values in one clause
			} else {
				r.line("case %d:", i)
			}
		}
		r.ind++
		if s.Form == "type" {
			r.line("tr.U(t%d)", s.ID)
		}
		if s.Init == "decl" && i == 0 {
			r.line("tr.U(w%d)", s.ID)
		}
		r.stmts(c)
		r.ind--
	}
	r.line("}")
}

func (r *rctx) forStmt(s *S) {
	r.depth++
	v := fmt.Sprintf("i%d", s.ID)
	bound := s.N
	if bound == 0 {
		bound = 2
	}
	post := ""
	switch s.Post {
	case "inc":
		post = v + "++"
	case "yield":
		post = yieldStmt(s.ID*10+1, "call")
	case "eff":
		post = fmt.Sprintf("tr.E(%d)", s.ID*10+1)
	}
	switch s.Form {
	case "inf":
		r.line("for {")
	case "cond":
		init := ""
		switch s.Init {
		case "yield":
			init = yieldStmt(s.ID*10+2, "call")
		case "yfrom":
			init = fmt.Sprintf("YFROM(§two(%d))", s.ID*1000)
		case "eff":
			init = fmt.Sprintf("tr.E(%d)", s.ID*10+2)
		}
		if init == "" && post == "" {
			r.line("for tr.B(%d) {", s.ID*10)
		} else {
			r.line("for %s; tr.B(%d); %s {", init, s.ID*10, post)
		}
	case "3c2": // two counters, parallel assignment in the post statement
		r.line("for %s, j%d := 0, %d; %s < j%d; %s, j%d = %s+1, j%d-1 {", v, s.ID, bound+2, v, s.ID, v, s.ID, v, s.ID)
		r.ind++
		r.line("tr.U(%s, j%d)", v, s.ID)
		r.ind--
	case "nip": // no init, tape-steered condition, post mutates state that yields read (the same For value may be re-run)
		r.line("for ; tr.B(%d); a++ {", s.ID*10)
	case "3cn": // three clauses without a condition: left by break/return in the body
		r.line("for %s := 0; ; %s++ {", v, v)
		r.ind++
		r.line("if %s >= %d {", v, bound+1)
		r.line("\tbreak")
		r.line("}")
		r.ind--
	case "3ca": // the init clause ASSIGNS to a variable declared before the loop (holding another value)
		r.line("%s := 7", v)
		r.line("for %s = 0; %s < %d; %s++ {", v, v, bound, v)
		r.ind++
		r.line("tr.U(%s)", v)
		r.ind--
	case "3cb": // three clauses, counted and tape-steered
		r.line("for %s := 0; %s < %d && tr.B(%d); %s++ {", v, v, bound+1, s.ID*10, v)
	default: // 3c: three clauses, counted; the counter is advanced by the post statement or, if the post yields, in the body
		init := fmt.Sprintf("%s := 0", v)
		if s.Init == "yield" {
			// the counter is declared before the loop, the init clause yields
			r.line("%s := 0", v)
			init = yieldStmt(s.ID*10+2, "call")
		}
		if s.Post == "inc" || s.Post == "" {
			r.line("for %s; %s < %d; %s++ {", init, v, bound, v)
		} else {
			r.line("for %s; %s < %d; %s {", init, v, bound, post)
			r.ind++
			r.line("%s++", v)
			r.ind--
		}
		r.ind++
		r.line("tr.U(%s)", v)
		r.ind--
	}
	r.block(s.A)
	r.line("}")
	r.depth--
}

// Render produces the neutral text of an int generator with the standard consumer.
func Render(xs []*S, endReturn bool) string {
	var b strings.Builder
	b.WriteString("func §gen() ITER[int] GEN[int]{\n")
	r := &rctx{b: &b, ind: 1}
	r.line("a, b := 1, 1")
	r.line("tr.U(a, b)")
	var body strings.Builder
	rb := &rctx{b: &body, ind: 1}
	rb.stmts(xs)
	if strings.Contains(body.String(), "SharedG") {
		r.line("SharedG = 0")
	}
	r.stmts(xs)
	if endReturn {
		r.line("RETNIL")
	}
	b.WriteString("}GEN\n")
	if strings.Contains(b.String(), "§two(") {
		b.WriteString("func §two(base int) ITER[int] GEN[int]{\n\tYIELD(base + 1)\n\ttr.E(base)\n\tYIELD(base + 2)\n\tRETNIL\n}GEN\n")
	}
	b.WriteString("func §E() { drv.Run[int](func() drv.It[int] { it := §gen(); return it }) }\n")
	return b.String()
}

// needsReturn: Go requires a terminating statement at the end of a function with
// results. We always append RETNIL (unreachable code is legal Go).
func Program(name string, xs []*S, st render.Style, salt string) *e1.Program {
	xs = cloneList(xs)
	n := 0
	number(xs, &n)
	p := &e1.Program{
		Name:     name,
		Neutral:  Render(xs, true),
		Features: Features(xs),
		Shape:    ShapeHash(xs, salt),
		Style:    st,
	}
	if strings.Contains(p.Neutral, "fmt.") {
		p.Imports = []string{"fmt"}
	}
	return p
}

// ---------------------------------------------------------------- well-formedness

type wctx struct {
	inLoop   bool
	inSwitch bool
}

// wellFormed: break only in loop/switch, continue only in loop; nothing after a
// terminator in the same list; an infinite loop must contain a yield or an exit.
func wellFormed(xs []*S, c wctx) bool {
	for i, s := range xs {
		if i < len(xs)-1 && (s.K == "break" || s.K == "continue" || s.K == "return" || (s.K == "panic" && s.N == 0)) {
			return false
		}
		switch s.K {
		case "break":
			if !c.inLoop && !c.inSwitch {
				return false
			}
		case "continue":
			if !c.inLoop {
				return false
			}
		case "if":
			if !wellFormed(s.A, c) || !wellFormed(s.B, c) {
				return false
			}
		case "block":
			if !wellFormed(s.A, c) {
				return false
			}
		case "switch":
			for _, cs := range s.Cases {
				if !wellFormed(cs, wctx{inLoop: c.inLoop, inSwitch: true}) {
					return false
				}
			}
		case "for":
			if s.Form == "inf" && ((!containsYield(s.A) && !hasExit(s.A)) || !logsFirst(s.A)) {
				return false
			}
			if !wellFormed(s.A, wctx{inLoop: true}) {
				return false
			}
		}
	}
	return true
}

// logsFirst: the first statement of the list unconditionally writes a trace event,
// so that the event budget bounds every run of an infinite loop.
func logsFirst(xs []*S) bool {
	if len(xs) == 0 {
		return false
	}
	s := xs[0]
	switch s.K {
	case "yield":
		return s.Form == "call" || s.Form == "call1" || s.Form == "negcall" || s.Form == "convcall"
	case "eff":
		return s.Form == "e" || s.Form == "set" || s.Form == "call"
	case "if":
		return true
	case "switch":
		if s.Form == "tagless" {
			// only the conditions of its non-default clauses are events
			n := len(s.Cases)
			if s.Def {
				n--
			}
			return n > 0 || s.Init == "eff" || s.Init == "yield"
		}
		return s.Form != "tag" || len(s.Cases) > 0
	case "block":
		return logsFirst(s.A)
	case "for":
		return s.Form == "cond" || s.Form == "3cb" || s.Form == "nip"
	}
	return false
}

// hasExit: the list contains a statement that leaves the enclosing loop
// (a break nested in a switch or an inner loop targets that, not the enclosing loop).
func hasExit(xs []*S) bool { return hasExit2(xs, true) }

func hasExit2(xs []*S, breakCounts bool) bool {
	for _, s := range xs {
		if s.K == "return" || s.K == "panic" || (s.K == "break" && breakCounts) {
			return true
		}
		switch s.K {
		case "for":
			if hasExit2(s.A, false) {
				return true
			}
		case "switch":
			for _, c := range s.Cases {
				if hasExit2(c, false) {
					return true
				}
			}
		default:
			if hasExit2(s.A, breakCounts) || hasExit2(s.B, breakCounts) {
				return true
			}
		}
	}
	return false
}

// ---------------------------------------------------------------- bounded-exhaustive enumeration

// skeleton statement kinds of the reduced grammar
var leafKinds = []string{"yield", "eff", "break", "continue", "return"}

// enumLists enumerates all statement lists with exactly n nodes.
func enumLists(n int, emit func([]*S)) {
	if n == 0 {
		emit(nil)
		return
	}
	for k := 1; k <= n; k++ {
		enumStmt(k, func(s *S) {
			enumLists(n-k, func(rest []*S) {
				emit(append([]*S{s}, rest...))
			})
		})
	}
}

// enumStmt enumerates all statements with exactly n nodes.
func enumStmt(n int, emit func(*S)) {
	if n == 1 {
		for _, k := range leafKinds {
			emit(&S{K: k, Form: "call"})
		}
		return
	}
	m := n - 1
	// block, if (no else), loops: one child list of m nodes
	enumLists(m, func(a []*S) {
		emit(&S{K: "block", A: a})
		emit(&S{K: "if", A: a})
		emit(&S{K: "for", Form: "3c", Post: "inc", A: a, N: 2})
		emit(&S{K: "for", Form: "cond", A: a})
		emit(&S{K: "for", Form: "inf", A: a})
		emit(&S{K: "for", Form: "3cn", A: a, N: 1})
		emit(&S{K: "for", Form: "nip", A: a})
		emit(&S{K: "for", Form: "3ca", A: a, N: 2})
		emit(&S{K: "for", Form: "3c", Post: "yield", A: a, N: 2})
		emit(&S{K: "switch", Form: "tag", Cases: [][]*S{a}})
		emit(&S{K: "switch", Form: "tagless", Cases: [][]*S{a}, Def: true})
	})
	// if/else and two-case switch: two child lists
	for l := 1; l < m; l++ {
		enumLists(l, func(a []*S) {
			enumLists(m-l, func(b []*S) {
				emit(&S{K: "if", A: a, B: b})
				emit(&S{K: "switch", Form: "tag", Cases: [][]*S{a, b}, Def: true})
				if containsYield(a) || containsYield(b) {
					emit(&S{K: "switch", Form: "tagless", Cases: [][]*S{a, b}, Def: true, DefAt: 1})
				}
			})
		})
	}
}

// Exhaustive returns every well-formed program of the reduced grammar with at
// most maxNodes statement nodes that contains at least one yield, capped.
func Exhaustive(maxNodes, cap int, quarantine map[string]bool, seed int64) (progs []*e1.Program, total int, complete bool) {
	complete = true
	var all [][]*S
	for n := 1; n <= maxNodes; n++ {
		enumLists(n, func(xs []*S) {
			if !containsYield(xs) || !wellFormed(xs, wctx{}) {
				return
			}
			all = append(all, cloneList(xs))
		})
	}
	total = len(all)
	if cap > 0 && len(all) > cap {
		// deterministic sample: keep all small ones, sample the rest
		rng := rand.New(rand.NewSource(seed))
		rng.Shuffle(len(all), func(i, j int) { all[i], all[j] = all[j], all[i] })
		sort.SliceStable(all, func(i, j int) bool { return Size(all[i]) < Size(all[j]) })
		all = all[:cap]
		complete = false
	}
	forms := []string{"call", "call1", "var", "lit", "glob", "expr", "neg", "conv", "negcall", "paren", "iife", "convcall", "deref"}
	for i, xs := range all {
		// cycle the yield / effect forms deterministically over the enumerated shapes
		k := i
		var walk func(ys []*S)
		walk = func(ys []*S) {
			for _, y := range ys {
				if y.K == "yield" {
					y.Form = forms[k%len(forms)]
					k++
				}
				if y.K == "eff" && k%3 == 0 {
					y.Form = []string{"mut", "globmut", "set", "closure"}[(k/3)%4]
				}
				walk(y.A)
				walk(y.B)
				for _, c := range y.Cases {
					walk(c)
				}
			}
		}
		walk(xs)
		if !wellFormed(xs, wctx{}) {
			continue
		}
		p := Program(fmt.Sprintf("x:%d", i), xs, render.Style(i%int(render.NStyles)), "x")
		if quarantined(p, quarantine) {
			continue
		}
		progs = append(progs, p)
	}
	return
}

func quarantined(p *e1.Program, q map[string]bool) bool {
	for _, f := range p.Features {
		if q[f] {
			return true
		}
	}
	return false
}

// ---------------------------------------------------------------- PRNG programs

// Weights of a random profile.
type Profile struct {
	Name      string
	MaxDepth  int
	MaxStmts  int
	YieldForm []string
	EffForm   []string
	PanicPct  int // percentage of statements that are (mostly tape-guarded) panics
}

var Ctl = Profile{Name: "ctl", MaxDepth: 4, MaxStmts: 5, YieldForm: []string{"call", "call", "lit", "var", "expr", "call1", "glob", "neg", "conv", "negcall", "iife"}, EffForm: []string{"e", "e", "mut", "set", "globmut", "closure", "vardecl", "multi", "emptyblock", "chan", "goclosure", "structlit", "recover"}}
var Panic = Profile{Name: "panic", MaxDepth: 3, MaxStmts: 5, YieldForm: []string{"call", "var", "lit", "boom1", "negcall"}, EffForm: []string{"e", "set", "mut", "closure"}, PanicPct: 12}
var Fx = Profile{Name: "fx", MaxDepth: 3, MaxStmts: 6, YieldForm: []string{"var", "expr", "call", "var", "call1", "glob", "lit", "neg", "pos", "paren", "conv", "deref", "index", "iife", "negcall", "convcall"}, EffForm: []string{"mut", "set", "e", "set", "globmut", "closure", "vardecl", "multi", "chan", "structlit"}}

type rgen struct {
	rng  *rand.Rand
	p    Profile
	left int
}

func (g *rgen) pick(xs []string) string { return xs[g.rng.Intn(len(xs))] }

func (g *rgen) list(depth int, c wctx, max int) []*S {
	n := 1 + g.rng.Intn(max)
	var out []*S
	for i := 0; i < n && g.left > 0; i++ {
		s := g.stmt(depth, c)
		out = append(out, s)
		if s.K == "break" || s.K == "continue" || s.K == "return" || (s.K == "panic" && s.N == 0) {
			break
		}
	}
	if out == nil {
		out = []*S{{K: "eff", Form: "e"}}
	}
	return out
}

func (g *rgen) stmt(depth int, c wctx) *S {
	g.left--
	if g.p.PanicPct > 0 && g.rng.Intn(100) < g.p.PanicPct {
		s := &S{K: "panic", Form: g.pick([]string{"explicit", "explicit", "index", "nilmap", "div", "error", "nil", "nilerr", "blank-index", "blank-deref", "blank-assert", "blank-div"}), N: 1}
		if g.rng.Intn(5) == 0 {
			s.N = 0
		}
		return s
	}
	r := g.rng.Intn(100)
	if depth >= g.p.MaxDepth && r >= 40 {
		r = g.rng.Intn(40)
	}
	switch {
	case r < 22:
		return &S{K: "yield", Form: g.pick(g.p.YieldForm)}
	case r < 34:
		return &S{K: "eff", Form: g.pick(g.p.EffForm)}
	case r < 39:
		if c.inLoop || c.inSwitch {
			return &S{K: "break"}
		}
		return &S{K: "eff", Form: "e"}
	case r < 43:
		if c.inLoop {
			return &S{K: "continue"}
		}
		return &S{K: "yield", Form: "call"}
	case r < 46:
		return &S{K: "return"}
	case r < 62:
		s := &S{K: "if", A: g.list(depth+1, c, 3)}
		if g.rng.Intn(2) == 0 {
			s.B = g.list(depth+1, c, 3)
			if g.rng.Intn(3) == 0 {
				s.B = []*S{{K: "if", A: g.list(depth+1, c, 2)}}
				if g.rng.Intn(2) == 0 {
					s.B[0].B = g.list(depth+1, c, 2)
				}
				s.Chain = true
			}
		}
		if g.rng.Intn(6) == 0 {
			s.Init = g.pick([]string{"decl", "eff", "assign"})
		}
		return s
	case r < 76:
		s := &S{K: "switch", Form: g.pick([]string{"tag", "tag", "tagless", "type"})}
		n := 1 + g.rng.Intn(3)
		for i := 0; i < n; i++ {
			if g.rng.Intn(6) == 0 {
				s.Cases = append(s.Cases, []*S{})
			} else {
				s.Cases = append(s.Cases, g.list(depth+1, wctx{inLoop: c.inLoop, inSwitch: true}, 3))
			}
		}
		s.Def = g.rng.Intn(2) == 0
		if s.Def && n > 1 {
			s.DefAt = g.rng.Intn(n) // 0 = last
		}
		if g.rng.Intn(4) == 0 {
			s.N = 7 // multi-value / multi-type first clause
		}
		if g.rng.Intn(5) == 0 {
			s.Init = g.pick([]string{"decl", "yield", "eff", "yfrom"})
		}
		return s
	case r < 94:
		s := &S{K: "for", Form: g.pick([]string{"3c", "3c", "3cb", "cond", "inf", "3cn", "nip", "3c2", "3ca"}), N: 1 + g.rng.Intn(3)}
		if s.Form == "3c" {
			s.Post = g.pick([]string{"inc", "inc", "inc", "yield", "eff"})
			if g.rng.Intn(6) == 0 {
				s.Init = "yield"
			}
		}
		if s.Form == "cond" && g.rng.Intn(3) == 0 {
			s.Init = g.pick([]string{"yield", "eff", "", "yfrom"})
			s.Post = g.pick([]string{"yield", "eff", "eff"})
		}
		s.A = g.list(depth+1, wctx{inLoop: true}, 4)
		if s.Form == "inf" && !containsYield(s.A) && !hasExit(s.A) {
			s.A = append([]*S{{K: "yield", Form: "call"}}, s.A...)
		}
		if s.Form == "inf" && !logsFirst(s.A) {
			s.A = append([]*S{{K: "eff", Form: "e"}}, s.A...)
		}
		return s
	default:
		return &S{K: "block", A: g.list(depth+1, c, 3)}
	}
}

// Random returns n PRNG programs of a profile (rejection-sampled against the quarantine).
func Random(p Profile, n int, seed int64, quarantine map[string]bool) []*e1.Program {
	rng := rand.New(rand.NewSource(seed))
	var out []*e1.Program
	for tries := 0; len(out) < n && tries < n*50; tries++ {
		g := &rgen{rng: rng, p: p, left: 6 + rng.Intn(30)}
		xs := g.list(0, wctx{}, p.MaxStmts)
		if !containsYield(xs) || !wellFormed(xs, wctx{}) {
			continue
		}
		prog := Program(fmt.Sprintf("r:%s:%d", p.Name, len(out)), xs, render.Style(rng.Intn(int(render.NStyles))), p.Name)
		if quarantined(prog, quarantine) {
			continue
		}
		out = append(out, prog)
	}
	return out
}
