package genr

import (
	"math/rand"
	"strings"

	"covr/internal/e1"
)

// Context variants of directed programs.
//
// The independent reviewers' misses were almost always "a known shape in a context the directed case did not
// have" (the first statement of a loop body that is entered twice, the tail of a switch clause, behind a yield,
// inside a nested literal ...). Contexts takes the hand-written programs and places the BODY of their entry
// generator §gen into other syntactic contexts, purely textually: the same text goes to the compiler and to the
// reference coroutine, so Go itself stays the oracle and no expectation is written by hand.
//
// A wrapper never binds a break / continue of the body (those are illegal at the top level of a function body,
// so the body has none that could target the new loop / switch), hence it cannot move a program into one of the
// quarantined known-finding classes.

// CtxKinds lists the wrapper kinds in a fixed order.
var CtxKinds = []string{
	"loop3c", "loopcond", "loopinf", "looppost", "rangeint", "rangeslice",
	"if", "else", "switch", "switchtail", "typeswitch", "block", "yields", "lit", "litloop",
}

func ctxWrap(kind, body, ty string) string {
	zero := "*new(" + ty + ")"
	switch kind {
	case "loop3c":
		return "for ʟ := 0; ʟ < 2; ʟ++ {\n" + body + "}\ntr.E(9009)\nRETNIL\n"
	case "loopcond":
		return "ʟ := 0\nfor ʟ < 2 {\nʟ++\n" + body + "}\nRETNIL\n"
	case "loopinf":
		return "ʟ := 0\nfor {\nif ʟ++; ʟ > 2 {\nbreak\n}\n" + body + "}\ntr.E(9009)\nRETNIL\n"
	case "looppost":
		return "for ʟ := 0; ʟ < 2; YIELD(" + zero + ") {\nʟ++\n" + body + "}\nRETNIL\n"
	case "rangeint":
		return "for range 2 {\n" + body + "}\nRETNIL\n"
	case "rangeslice":
		return "for _, ʟ := range []int{7, 8} {\ntr.V(9004, ʟ)\n" + body + "}\nRETNIL\n"
	case "if":
		return "if tr.B(9001) {\n" + body + "} else {\ntr.E(9002)\n}\ntr.E(9003)\nRETNIL\n"
	case "else":
		return "if tr.B(9001) {\ntr.E(9002)\n} else {\n" + body + "}\nRETNIL\n"
	case "switch":
		return "switch {\ncase tr.B(9001):\n" + body + "default:\ntr.E(9002)\n}\ntr.E(9003)\nRETNIL\n"
	case "switchtail":
		return "tr.E(9000)\nswitch tr.N(9001, 2) {\ncase 0:\ntr.E(9002)\ndefault:\n" + body + "}\nRETNIL\n"
	case "typeswitch":
		return "switch ʟ := any(tr.N(9001, 2)).(type) {\ncase string:\ntr.E(9002)\ncase int:\ntr.V(9004, ʟ)\n" + body + "}\ntr.E(9003)\nRETNIL\n"
	case "block":
		return "{\n" + body + "}\ntr.E(9003)\nRETNIL\n"
	case "yields":
		return "YIELD(" + zero + ")\n" + body + "YIELD(" + zero + ")\nRETNIL\n"
	case "lit":
		return "YFROM(func() ITER[" + ty + "] GEN[" + ty + "]{\n" + body + "RETNIL\n}GEN())\ntr.E(9003)\nRETNIL\n"
	case "litloop":
		return "for ʟ := 0; ʟ < 2; ʟ++ {\nYFROM(func() ITER[" + ty + "] GEN[" + ty + "]{\n" + body + "RETNIL\n}GEN())\n}\nRETNIL\n"
	}
	panic("ctx kind " + kind)
}

// splitEntry cuts the neutral text at the body of the top-level generator §gen: head + body + tail, and returns
// the element type. ok is false when the program has no such generator (or one of an unusual form).
func splitEntry(neutral string) (head, body, tail, ty string, ok bool) {
	i := strings.Index(neutral, "func §gen(")
	if i < 0 || (i > 0 && neutral[i-1] != '\n') {
		return
	}
	nl := strings.Index(neutral[i:], "\n")
	if nl < 0 {
		return
	}
	line := neutral[i : i+nl]
	if !strings.HasSuffix(line, "{") || strings.Contains(line, "GENP[") {
		return
	}
	g := strings.LastIndex(line, " GEN[")
	if g < 0 {
		return
	}
	ty = line[g+5 : len(line)-2]
	if !strings.HasSuffix(line, " GEN["+ty+"]{") {
		return
	}
	start := i + nl + 1
	end := strings.Index(neutral[start:], "\n}GEN\n")
	if end < 0 {
		return
	}
	body = neutral[start : start+end+1]
	return neutral[:start], body, neutral[start+end+1:], ty, true
}

// Contexts returns, for every eligible program, perProg context variants (all kinds when perProg <= 0), chosen by
// a PRNG seeded from seed and the program name. Programs that are witnesses of known findings, expect a
// rejection, have no reference or are compared natively are left alone.
func Contexts(progs []*e1.Program, seed int64, perProg int, quarantine map[string]bool) []*e1.Program {
	var out []*e1.Program
	for _, p := range progs {
		if p.Expect != "" || p.NoRef || p.Native || p.Isolate || quarantined(p, quarantine) || strings.Contains(p.Name, "+ctx:") {
			continue
		}
		head, body, tail, ty, ok := splitEntry(p.Neutral)
		if !ok || strings.Contains(body, "goto ") || strings.Contains(body, "ʟ") {
			continue
		}
		// the final `return nil` of the body would end the wrapper loops after one pass
		trimmed := strings.TrimRight(body, "\n \t")
		if strings.HasSuffix(trimmed, "RETNIL") {
			cut := strings.LastIndex(body, "RETNIL")
			body = strings.TrimRight(body[:cut], " \t")
		}
		if strings.TrimSpace(body) == "" {
			continue
		}
		kinds := append([]string(nil), CtxKinds...)
		if perProg > 0 && perProg < len(kinds) {
			h := int64(0)
			for _, ch := range p.Name {
				h = h*131 + int64(ch)
			}
			r := rand.New(rand.NewSource(seed*1000003 + h))
			r.Shuffle(len(kinds), func(i, j int) { kinds[i], kinds[j] = kinds[j], kinds[i] })
			kinds = kinds[:perProg]
		}
		for _, k := range kinds {
			q := *p
			q.Name = p.Name + "+ctx:" + k
			q.Neutral = head + ctxWrap(k, body, ty) + tail
			q.Features = append(append([]string(nil), p.Features...), "ctx:"+k)
			q.Shape = ""
			q.Optional = true
			if p.Budget > 0 {
				q.Budget = p.Budget * 3
			}
			if p.MaxMoves > 0 {
				q.MaxMoves = p.MaxMoves * 3
			}
			out = append(out, &q)
		}
	}
	return out
}
