package genr

import (
	"crypto/sha256"
	"encoding/hex"
	"fmt"
	"math/rand"
	"sort"
	"strings"

	"covr/internal/e1"
	"covr/internal/render"
)

// The scope profile (C03): programs that declare, shadow, update and capture
// int locals at arbitrary positions relative to yields. Names come from a small
// pool and are deliberately reused. Every variable read that matters is wrapped
// in tr.R(id, x) so that "which variable did this reference denote" is an event.

type svar struct {
	name     string
	readonly bool // loop counters: may be read and shadowed, never assigned
}

type sgen struct {
	rng    *rand.Rand
	b      strings.Builder
	ind    int
	id     int
	left   int
	feats  map[string]bool
	scopes [][]svar
	inLoop int
	// quarantine-relevant context
	inYieldingSwitch int
}

func (g *sgen) nid() int { g.id++; return g.id }

func (g *sgen) line(format string, a ...any) {
	g.b.WriteString(strings.Repeat("\t", g.ind))
	fmt.Fprintf(&g.b, format, a...)
	g.b.WriteByte('\n')
}

func (g *sgen) push() { g.scopes = append(g.scopes, nil) }
func (g *sgen) pop()  { g.scopes = g.scopes[:len(g.scopes)-1] }

func (g *sgen) declare(name string, ro bool) {
	top := len(g.scopes) - 1
	for i, v := range g.scopes[top] {
		if v.name == name {
			g.scopes[top][i].readonly = ro
			return
		}
	}
	g.scopes[top] = append(g.scopes[top], svar{name, ro})
}

func (g *sgen) declaredHere(name string) bool {
	for _, v := range g.scopes[len(g.scopes)-1] {
		if v.name == name {
			return true
		}
	}
	return false
}

// visible returns the innermost binding of every visible name.
func (g *sgen) visible() []svar {
	seen := map[string]bool{}
	var out []svar
	for i := len(g.scopes) - 1; i >= 0; i-- {
		for _, v := range g.scopes[i] {
			if !seen[v.name] {
				seen[v.name] = true
				out = append(out, v)
			}
		}
	}
	sort.Slice(out, func(i, j int) bool { return out[i].name < out[j].name })
	return out
}

func (g *sgen) shadows(name string) bool {
	for i := len(g.scopes) - 2; i >= 0; i-- {
		for _, v := range g.scopes[i] {
			if v.name == name {
				return true
			}
		}
	}
	return false
}

// nipVar picks a writable variable for a loop without init clause ("" if there is none).
func (g *sgen) nipVar() string {
	if v, ok := g.writable(); ok {
		return v.name
	}
	return ""
}

var pool = []string{"x", "y", "v", "w"}

func (g *sgen) pickName() string { return pool[g.rng.Intn(len(pool))] }

func (g *sgen) anyVar() (svar, bool) {
	vs := g.visible()
	if len(vs) == 0 {
		return svar{}, false
	}
	return vs[g.rng.Intn(len(vs))], true
}

func (g *sgen) writable() (svar, bool) {
	var ws []svar
	for _, v := range g.visible() {
		if !v.readonly {
			ws = append(ws, v)
		}
	}
	if len(ws) == 0 {
		return svar{}, false
	}
	return ws[g.rng.Intn(len(ws))], true
}

// expr is an int expression over visible variables (reads are logged).
func (g *sgen) expr() string {
	v, ok := g.anyVar()
	if !ok || g.rng.Intn(5) == 0 {
		return fmt.Sprint(1 + g.rng.Intn(9))
	}
	read := fmt.Sprintf("tr.R(%d, %s)", g.nid(), v.name)
	switch g.rng.Intn(9) {
	case 4:
		return v.name // bare variable: nothing but the variable itself is evaluated
	case 5:
		return "-" + v.name
	case 6:
		return "-" + read
	case 7:
		return fmt.Sprintf("int(int64(%s))", v.name)
	case 8:
		return "(" + v.name + ")"
	case 0:
		return read
	case 1:
		return fmt.Sprintf("%s + %d", read, 1+g.rng.Intn(5))
	case 2:
		if w, ok := g.anyVar(); ok {
			return fmt.Sprintf("%s*10 + tr.R(%d, %s)", read, g.nid(), w.name)
		}
		return read
	default:
		return fmt.Sprintf("%s*2", read)
	}
}

func (g *sgen) cond() string {
	if v, ok := g.anyVar(); ok && g.rng.Intn(3) == 0 {
		return fmt.Sprintf("tr.R(%d, %s)%%2 == 0", g.nid(), v.name)
	}
	return fmt.Sprintf("tr.B(%d)", g.nid())
}

func (g *sgen) block(depth int, max int, predeclared ...string) {
	g.ind++
	g.push()
	for _, n := range predeclared {
		// names bound in the very scope of this block (type-switch binding in a case clause)
		g.declare(n, false)
	}
	n := 1 + g.rng.Intn(max)
	for i := 0; i < n && g.left > 0; i++ {
		g.stmt(depth)
	}
	g.pop()
	g.ind--
}

// constDecl declares a constant or a type that shadows a pool name (readonly afterwards).
func (g *sgen) constDecl() {
	name := g.pickName()
	if g.declaredHere(name) {
		g.line("tr.E(%d)", g.nid())
		return
	}
	g.declare(name, true)
	if g.shadows(name) {
		g.feats["shadow"] = true
	}
	g.line("const %s = %d", name, 40+g.rng.Intn(9))
	g.line("tr.U(%s)", name)
	g.feats["const-decl"] = true
}

func (g *sgen) declStmt() {
	if g.rng.Intn(7) == 0 {
		g.constDecl()
		return
	}
	name := g.pickName()
	if g.declaredHere(name) {
		// redeclaration in the same scope is not legal: assign instead
		for _, v := range g.visible() {
			if v.name == name && !v.readonly {
				if g.rng.Intn(2) == 0 {
					// partial redeclaration: ':=' ASSIGNS to the variable declared earlier in this scope
					// (closures created before an intervening yield must see the assignment)
					fresh := fmt.Sprintf("n%d", g.nid())
					switch g.rng.Intn(3) {
					case 0:
						g.line("%s, %s := %s, %s", name, fresh, g.expr(), g.expr())
					case 1:
						g.line("%s, %s := %s, %d", fresh, name, g.expr(), 1+g.rng.Intn(9))
					default:
						g.line("%s, %s := func() (int, int) { return %s, %s }()", name, fresh, g.expr(), g.expr())
					}
					g.line("tr.U(%s)", fresh)
					g.feats["partial-redeclaration"] = true
					return
				}
				g.line("%s = %s", name, g.expr())
				g.feats["assign"] = true
				return
			}
		}
		g.line("tr.E(%d)", g.nid())
		return
	}
	e := g.expr() // evaluated in the OUTER binding of name (x := x + 1)
	g.declare(name, false)
	if g.shadows(name) {
		g.feats["shadow"] = true
	}
	g.line("%s := %s", name, e)
	g.line("tr.U(%s)", name)
	g.feats["decl"] = true
}

func (g *sgen) stmt(depth int) {
	g.left--
	r := g.rng.Intn(100)
	if depth >= 3 && r >= 55 {
		r = g.rng.Intn(55)
	}
	switch {
	case r < 14:
		g.declStmt()
	case r < 24:
		if v, ok := g.writable(); ok {
			switch g.rng.Intn(3) {
			case 0:
				g.line("%s++", v.name)
			case 1:
				g.line("%s += %s", v.name, g.expr())
			default:
				g.line("%s = %s", v.name, g.expr())
			}
			g.feats["assign"] = true
		} else {
			g.declStmt()
		}
	case r < 44:
		g.line("YIELD(%s)", g.expr())
	case r < 50:
		if v, ok := g.anyVar(); ok {
			g.line("tr.R(%d, %s)", g.nid(), v.name)
		} else {
			g.line("tr.E(%d)", g.nid())
		}
	case r < 55:
		// closure created here, called after the following statements (typically after a yield)
		if v, ok := g.writable(); ok {
			f := fmt.Sprintf("f%d", g.nid())
			switch g.rng.Intn(3) {
			case 0:
				g.line("%s := func() int { %s++; return tr.R(%d, %s) }", f, v.name, g.nid(), v.name)
			case 1:
				g.line("%s := func() int { return tr.R(%d, %s) * 3 }", f, g.nid(), v.name)
			default:
				g.line("%s := func() int { %s := tr.R(%d, %s) + 100; return %s }", f, v.name, g.nid(), v.name, v.name)
			}
			if g.rng.Intn(2) == 0 {
				g.line("YIELD(%s)", g.expr())
			} else {
				g.line("%s += 7", v.name)
			}
			if g.rng.Intn(2) == 0 {
				g.line("YIELD(%s())", f)
			} else {
				g.line("tr.V(%d, %s())", g.nid(), f)
			}
			g.line("tr.R(%d, %s)", g.nid(), v.name)
			g.feats["closure-capture-across-yield"] = true
		} else {
			g.declStmt()
		}
	case r < 66:
		// if with optional shadowing initialiser
		if g.rng.Intn(3) == 0 {
			name := g.pickName()
			e := g.expr()
			g.push()
			g.declare(name, false)
			g.line("if %s := %s; %s > 0 && %s {", name, e, name, g.cond())
			g.feats["if-init-decl"] = true
			g.block(depth+1, 3)
			if g.rng.Intn(2) == 0 {
				g.line("} else {")
				g.line("\ttr.R(%d, %s)", g.nid(), name)
				g.block(depth+1, 2)
			}
			g.line("}")
			g.pop()
		} else {
			g.line("if %s {", g.cond())
			g.block(depth+1, 3)
			if g.rng.Intn(2) == 0 {
				g.line("} else {")
				g.block(depth+1, 2)
			}
			g.line("}")
		}
	case r < 70 && g.inLoop > 0 && g.nipVar() != "":
		// three-clause loop WITHOUT init over an outer variable (a cursor shared by all runs of the loop):
		// inside an enclosing loop the very same loop statement is entered several times
		v := g.nipVar()
		bound := 2 + g.rng.Intn(4)
		g.push()
		g.declare(v, true) // the body must not assign the cursor (termination)
		switch g.rng.Intn(3) {
		case 0:
			g.line("for ; %s < %d; %s++ {", v, bound, v)
		case 1:
			g.line("for ; tr.R(%d, %s) < %d; %s += 2 {", g.nid(), v, bound, v)
		default:
			g.line("for ; %s < %d && %s; %s++ {", v, bound+2, g.cond(), v)
		}
		g.feats["for:nip"] = true
		g.inLoop++
		g.block(depth+1, 3)
		g.inLoop--
		g.line("}")
		g.pop()
	case r < 78:
		// three-clause loop whose counter comes from the pool (shadowing), optional yielding post
		name := g.pickName()
		outer, hasOuter := g.anyVar() // read by the init clause, i.e. in the scope the loop stands in
		g.push()
		g.declare(name, true)
		if g.shadows(name) {
			g.feats["shadow"] = true
		}
		bound := 1 + g.rng.Intn(3)
		switch g.rng.Intn(6) {
		case 4, 5:
			// the init clause declares SEVERAL variables: a pool name (which may shadow a variable of the enclosing
			// scopes, also of the very block the loop stands in) and a fresh counter; with / without condition
			cnt := fmt.Sprintf("c%d", g.nid())
			init := fmt.Sprintf("%d", 10*g.nid())
			if hasOuter {
				init = fmt.Sprintf("tr.R(%d, %s) + %d", g.nid(), outer.name, 1+g.rng.Intn(5))
			}
			switch g.rng.Intn(3) {
			case 0:
				g.line("for %s, %s := %s, 0; %s < %d; %s++ {", name, cnt, init, cnt, bound, cnt)
			case 1:
				g.line("for %s, %s := %s, 0; ; %s++ {", name, cnt, init, cnt)
				g.line("\tif %s >= %d {", cnt, bound)
				g.line("\t\tbreak")
				g.line("\t}")
			default:
				g.line("for %s, %s := %s, 0; ; %s, %s = %s+1, %s+1 {", name, cnt, init, cnt, name, cnt, name)
				g.line("\tif tr.R(%d, %s) >= %d {", g.nid(), cnt, bound)
				g.line("\t\tRETNIL")
				g.line("\t}")
			}
			g.line("\t%s += tr.R(%d, %s)", name, g.nid(), cnt)
			g.feats["for-init-multi-decl"] = true
			// the pool name is writable inside the loop
			g.declare(name, false)
		case 0:
			// yielding post statement that reads names which the body may shadow (TestForPostScope family)
			v, ok := g.anyVar()
			post := fmt.Sprintf("YIELD(tr.R(%d, %s))", g.nid(), name)
			if ok {
				post = fmt.Sprintf("YIELD(tr.R(%d, %s)*100 + tr.R(%d, %s))", g.nid(), v.name, g.nid(), name)
			}
			g.line("for %s := 0; %s < %d; %s {", name, name, bound, post)
			g.line("\t%s++", name)
			g.feats["for-post-yield"] = true
			// `continue` is never generated in the scope profile, so the known finding about
			// continue + yielding post is not reachable here
		case 1:
			g.line("for %s := 0; %s < %d; %s++ {", name, name, bound, name)
		case 2:
			g.line("for %s := %s; %s < %d; %s++ {", name, "0", name, bound, name)
		default:
			g.line("for %s := 0; %s < %d && %s; %s++ {", name, name, bound+1, g.cond(), name)
		}
		g.feats["for-init-decl"] = true
		g.inLoop++
		g.block(depth+1, 4)
		g.inLoop--
		g.line("}")
		g.pop()
	case r < 86:
		// range over a slice literal with := or = forms (range variables)
		kn, vn := g.pickName(), g.pickName()
		for vn == kn {
			vn = g.pickName()
		}
		form := g.rng.Intn(4)
		assigned := ""
		elems := []string{"10", "20", "30"}[:1+g.rng.Intn(3)]
		coll := "[]int{" + strings.Join(elems, ", ") + "}"
		if v, ok := g.anyVar(); ok && g.rng.Intn(2) == 0 {
			coll = fmt.Sprintf("[]int{tr.R(%d, %s), 5}", g.nid(), v.name)
		}
		switch {
		case form == 0:
			g.push()
			g.declare(kn, true)
			g.declare(vn, true)
			g.line("for %s, %s := range %s {", kn, vn, coll)
			g.line("\ttr.U(%s, %s)", kn, vn)
			g.feats["range-define"] = true
		case form == 1:
			g.push()
			g.declare(vn, true)
			g.line("for _, %s := range %s {", vn, coll)
			g.line("\ttr.U(%s)", vn)
			g.feats["range-define"] = true
		default:
			// '=' form assigns to existing variables (value-only, key-only, key and value)
			w, ok := g.writable()
			if !ok {
				g.push()
				g.declare(kn, true)
				g.line("for %s := range %s {", kn, coll)
				g.line("\ttr.U(%s)", kn)
			} else {
				g.push()
				switch g.rng.Intn(3) {
				case 0:
					g.line("for _, %s = range %s {", w.name, coll)
				case 1:
					g.line("for %s = range %s {", w.name, coll)
				default:
					if w2, ok2 := g.writable(); ok2 && w2.name != w.name {
						g.line("for %s, %s = range %s {", w.name, w2.name, coll)
					} else {
						g.line("for %s = range %s {", w.name, coll)
					}
				}
				g.feats["range-assign"] = true
				assigned = w.name
			}
		}
		g.inLoop++
		g.block(depth+1, 3)
		g.inLoop--
		g.line("}")
		g.pop()
		if assigned != "" {
			// the value the '=' form left in the variable is observable after the loop
			g.line("tr.R(%d, %s)", g.nid(), assigned)
		}
	case r < 93:
		// switch with shadowing initialiser / type switch with binding
		name := g.pickName()
		if g.rng.Intn(3) == 0 {
			e := g.expr()
			g.push()
			g.declare(name, false)
			g.line("switch %s := any(%s).(type) {", name, e)
			g.line("case int:")
			g.line("\ttr.R(%d, %s)", g.nid(), name)
			g.block(depth+1, 3, name)
			g.line("case string:")
			g.line("\ttr.U(%s)", name)
			g.line("}")
			g.pop()
			g.feats["typeswitch-binding"] = true
		} else {
			e := g.expr()
			g.push()
			g.declare(name, false)
			g.line("switch %s := %s; %s %% 3 {", name, e, name)
			g.feats["switch-init-decl"] = true
			for c := 0; c < 1+g.rng.Intn(3); c++ {
				g.line("case %d:", c)
				g.line("\ttr.R(%d, %s)", g.nid(), name)
				g.block(depth+1, 3)
			}
			if g.rng.Intn(2) == 0 {
				g.line("default:")
				g.block(depth+1, 2)
			}
			g.line("}")
			g.pop()
		}
	default:
		g.line("{")
		g.block(depth+1, 3)
		g.line("}")
		g.feats["block"] = true
	}
}

// Scope returns n PRNG programs of the scope profile.
func Scope(n int, seed int64) []*e1.Program {
	rng := rand.New(rand.NewSource(seed))
	var out []*e1.Program
	for len(out) < n {
		g := &sgen{rng: rng, ind: 1, left: 8 + rng.Intn(28), feats: map[string]bool{}}
		g.push()
		g.b.WriteString("func §gen() ITER[int] GEN[int]{\n")
		g.declare("x", false)
		g.line("x := 1")
		g.line("tr.U(x)")
		k := 2 + rng.Intn(5)
		for i := 0; i < k && g.left > 0; i++ {
			g.stmt(0)
		}
		g.line("YIELD(tr.R(%d, x))", g.nid())
		g.line("RETNIL")
		g.b.WriteString("}GEN\n")
		g.b.WriteString("func §E() { drv.Run[int](func() drv.It[int] { it := §gen(); return it }) }\n")
		text := g.b.String()
		if !strings.Contains(text, "YIELD(") {
			continue
		}
		var fs []string
		for f := range g.feats {
			fs = append(fs, f)
		}
		sort.Strings(fs)
		h := sha256.Sum256([]byte(text))
		out = append(out, &e1.Program{
			Name:     fmt.Sprintf("r:scope:%d", len(out)),
			Neutral:  text,
			Features: fs,
			Shape:    hex.EncodeToString(h[:])[:12],
			Style:    render.Style(rng.Intn(int(render.NStyles))),
		})
	}
	return out
}
