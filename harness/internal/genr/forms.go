package genr

import (
	"fmt"
	"strings"

	"covr/internal/e1"
)

// Generator forms (C11): the same body as function, method (value / pointer
// receiver), generic function, function literal, nested function literal.
const NForms = 8

var formNames = [NForms]string{"func", "method-value-recv", "method-pointer-recv", "generic-func", "func-literal", "nested-literal", "named-result-bare-return", "method-of-generic-type"}

const stdHeader = "func §gen() ITER[int] GEN[int]{\n"
const stdCall = "it := §gen(); return it"

// WithForm rewrites a standard program (one int generator §gen with the standard
// entry) into another generator form. It returns nil if the program is not standard.
func WithForm(p *e1.Program, form int) *e1.Program {
	if form == 0 {
		return p
	}
	if strings.Count(p.Neutral, stdHeader) != 1 || strings.Count(p.Neutral, stdCall) != 1 || strings.Contains(p.Neutral, "func §two(") {
		return nil
	}
	// the body ends at the LAST "}GEN\n" before the entry
	i := strings.Index(p.Neutral, stdHeader)
	j := strings.LastIndex(p.Neutral, "}GEN\n")
	if j < i {
		return nil
	}
	pre, body, post := p.Neutral[:i], p.Neutral[i+len(stdHeader):j], p.Neutral[j+len("}GEN\n"):]
	var text string
	switch form {
	case 1:
		text = pre + "type §recv struct{ k int }\n\nfunc (r §recv) gen() ITER[int] GEN[int]{\n" + body + "}GEN\n" + strings.Replace(post, stdCall, "it := (§recv{k: 1}).gen(); return it", 1)
	case 2:
		text = pre + "type §recv struct{ k int }\n\nfunc (r *§recv) gen() ITER[int] GEN[int]{\n" + body + "}GEN\n" + strings.Replace(post, stdCall, "it := (&§recv{k: 1}).gen(); return it", 1)
	case 3:
		text = pre + "func §gen[GT9 any]() ITER[int] GEN[int]{\n" + body + "}GEN\n" + strings.Replace(post, stdCall, "it := §gen[string](); return it", 1)
	case 4:
		text = pre + "var §gen = func() ITER[int] GEN[int]{\n" + body + "}GEN\n" + post
	case 5:
		ind := strings.ReplaceAll(body, "\n", "\n\t")
		text = pre + stdHeader + "\tYFROM(func() ITER[int] GEN[int]{\n\t" + strings.TrimRight(ind, "\t") + "\t}GEN())\n\tRETNIL\n}GEN\n" + post
	case 6:
		// named blank result and bare `return` (the form the repository's own corpus uses)
		if strings.Contains(body, "GEN[") {
			return nil
		}
		text = pre + "func §gen() (_ ITER[int]) GEN[int]{\n" + strings.ReplaceAll(body, "RETNIL", "RETBARE") + "}GEN\n" + post
	case 7:
		text = pre + "type §gbox[GT9 any] struct{ v GT9 }\n\nfunc (r *§gbox[GT9]) gen() ITER[int] GEN[int]{\n" + body + "}GEN\n" + strings.Replace(post, stdCall, "it := (&§gbox[string]{v: \"s\"}).gen(); return it", 1)
	default:
		return nil
	}
	q := *p
	q.Neutral = text
	q.Name = fmt.Sprintf("%s/form:%s", p.Name, formNames[form])
	q.Features = append(append([]string{}, p.Features...), "form:"+formNames[form])
	q.Shape = p.ShapeHash() + "/" + formNames[form]
	return &q
}
