package genr

import (
	"crypto/sha256"
	"encoding/hex"
	"fmt"
	"math/rand"
	"strings"

	"covr/internal/e1"
	"covr/internal/render"
)

// The range profile (C04): generators containing range loops over string /
// slice / array / map / chan / int x variable forms x body shapes x mutation of
// the ranged collection. The reference rendering executes the very same text
// with Go's native range statement.

type rkind struct {
	name    string
	setup   []string // declarations before the loop; collection variable is "c"
	elem    string   // how to turn (k, v) into an int for yielding
	hasVal  bool
	keyInt  bool
	mutate  []string // statements that mutate the collection mid-loop (guarded by the caller)
	maporder bool
	expr       string   // the range expression (default: the collection variable c)
	nowrap     bool     // never wrap the range expression into tr.X (it must stay a constant / a literal conversion)
	kconv      string   // format turning the key into an int (default "%s")
	vconv      string   // format turning the value into an int (default "int(%s)")
	defineOnly bool     // only ':=' forms (keys / values are not ints)
	vzero      string   // declaration of v for the '=' forms (default: v := -1, rune(-1) for strings)
	bodies     []string // restriction of the body shapes (kinds the compiler leaves native must not yield in the body)
}

func rangeKinds() []rkind {
	return []rkind{
		{name: "string:ascii", setup: []string{`c := "abc"`}, hasVal: true, keyInt: true},
		{name: "string:multibyte", setup: []string{`c := "aé€😀z"`}, hasVal: true, keyInt: true},
		{name: "string:invalid-utf8", setup: []string{`c := "a\xff\xc3z\xe2\x82"`}, hasVal: true, keyInt: true},
		{name: "string:empty", setup: []string{`c := ""`}, hasVal: true, keyInt: true},
		{name: "string:valid-replacement-char", setup: []string{`c := "a\uFFFDb\uFFFD\uFFFD\xffz\uFFFD"`}, hasVal: true, keyInt: true},
		{name: "string:reassigned", setup: []string{`c := "héy"`}, hasVal: true, keyInt: true, mutate: []string{`c = "zzzzzzzz"`}},
		{name: "slice", setup: []string{`c := []int{11, 22, 33}`}, hasVal: true, keyInt: true,
			mutate: []string{`c[2] = 99`, `c = append(c, 44)`, `c = c[:1]`, `c = nil`, `c[0], c[2] = c[2], c[0]`}},
		{name: "slice:nil", setup: []string{`var c []int`}, hasVal: true, keyInt: true, mutate: []string{`c = append(c, 5)`}},
		{name: "slice:with-spare-capacity", setup: []string{`c := make([]int, 2, 8)`, `c[0], c[1] = 7, 8`}, hasVal: true, keyInt: true,
			mutate: []string{`c = append(c, 44)`, `_ = append(c[:1], 55)`}},
		{name: "array", setup: []string{`c := [3]int{11, 22, 33}`}, hasVal: true, keyInt: true, mutate: []string{`c[2] = 99`, `c = [3]int{7, 8, 9}`}},
		{name: "array:empty", setup: []string{`var c [0]int`}, hasVal: true, keyInt: true},
		{name: "map:one-entry", setup: []string{`c := map[int]int{5: 50}`}, hasVal: true, keyInt: true, mutate: []string{`c[5] = 77`, `delete(c, 5)`}},
		{name: "map:nil", setup: []string{`var c map[int]int`}, hasVal: true, keyInt: true},
		{name: "map:three-entries", setup: []string{`c := map[int]int{1: 10, 2: 20, 3: 30}`}, hasVal: true, keyInt: true, maporder: true},
		{name: "chan:buffered-closed", setup: []string{`c := make(chan int, 4)`, `c <- 5`, `c <- 0`, `c <- 7`, `close(c)`}, keyInt: true},
		{name: "chan:closed-empty", setup: []string{`c := make(chan int)`, `close(c)`}, keyInt: true},
		{name: "int", setup: []string{`c := 3`}, keyInt: true, mutate: []string{`c = 10`}},
		{name: "int:zero", setup: []string{`c := 0`}, keyInt: true},
		{name: "int:negative", setup: []string{`c := -2`}, keyInt: true},
		// constants, typed constants and calls as integer range expressions
		{name: "int:const", setup: []string{`const c = 3`}, keyInt: true, nowrap: true},
		{name: "int:literal", expr: "3", keyInt: true, nowrap: true},
		{name: "int:typed-const", setup: []string{`const c uint8 = 3`}, keyInt: true, nowrap: true, kconv: "int(%s)", defineOnly: true},
		{name: "int:call", setup: []string{`lim := func() int { tr.E(9); return 3 }`}, expr: "lim()", keyInt: true, nowrap: true},
		// element types the iterators might special-case
		{name: "map:named-string-key", setup: []string{`type lang string`, `c := map[lang]int{"go": 2}`}, hasVal: true, kconv: "len(%s)", defineOnly: true},
		{name: "map:named-string-val", setup: []string{`type lang string`, `c := map[int]lang{7: "zig"}`}, hasVal: true, keyInt: true, vconv: "len(%s)", defineOnly: true},
		{name: "map:any-any", setup: []string{`c := map[any]any{"k": "vv"}`}, hasVal: true, kconv: "len(%s.(string))", vconv: "len(%s.(string))", defineOnly: true},
		{name: "map:array-key-struct-val", setup: []string{`c := map[[2]int]struct{ a, b int }{{1, 2}: {3, 4}}`}, hasVal: true, kconv: "%s[1]", vconv: "%s.b", defineOnly: true},
		{name: "slice:named-string-elems", setup: []string{`type lang string`, `c := []lang{"a", "bcd"}`}, hasVal: true, keyInt: true, vconv: "len(%s)", defineOnly: true},
		{name: "slice:pointer-elems", setup: []string{`x, y := 5, 6`, `c := []*int{&x, nil, &y}`}, hasVal: true, keyInt: true, vconv: "func(p *int) int { if p == nil { return -1 }; return *p }(%s)", defineOnly: true},
		{name: "chan:of-named-string", setup: []string{`type lang string`, `c := make(chan lang, 2)`, `c <- "ab"`, `c <- ""`, `close(c)`}, kconv: "len(%s)", defineOnly: true},
		// defined collection types and directional channels (type inference of the iterator constructors)
		{name: "chan:recv-only", setup: []string{`ch := make(chan int, 3)`, `ch <- 5`, `ch <- 7`, `close(ch)`, `var c <-chan int = ch`}, keyInt: true},
		{name: "chan:defined-type", setup: []string{`type events chan int`, `c := make(events, 2)`, `c <- 4`, `close(c)`}, keyInt: true},
		{name: "chan:defined-recv-only-type", setup: []string{`type feed <-chan int`, `ch := make(chan int, 2)`, `ch <- 6`, `ch <- 0`, `close(ch)`, `var c feed = ch`}, keyInt: true},
		{name: "slice:defined-type", setup: []string{`type ints []int`, `c := ints{11, 22, 33}`}, hasVal: true, keyInt: true, mutate: []string{`c[2] = 99`, `c = c[:1]`}},
		{name: "map:defined-type", setup: []string{`type dict map[int]int`, `c := dict{5: 50}`}, hasVal: true, keyInt: true, mutate: []string{`delete(c, 5)`}},
		{name: "array:defined-type", setup: []string{`type triple [3]int`, `c := triple{11, 22, 33}`}, hasVal: true, keyInt: true},
		{name: "string:defined-type", setup: []string{`type text string`, `c := text("héy")`}, hasVal: true, keyInt: true},
		{name: "int:defined-type", setup: []string{`type count int`, `c := count(3)`}, keyInt: true, kconv: "int(%s)", defineOnly: true},
		// literal conversions as range expressions
		// conversions COPY (string <-> []byte / []rune): writes to the source during the loop must stay invisible;
		// conversions between slice types do not copy: writes must be visible
		{name: "conv:runes-of-string", setup: []string{`s := "aé€😀z"`}, expr: "[]rune(s)", nowrap: true, hasVal: true, keyInt: true, vzero: "v := rune(-1)", mutate: []string{`s = ""`}},
		{name: "conv:bytes-of-string", setup: []string{`s := "aé€z"`}, expr: "[]byte(s)", nowrap: true, hasVal: true, keyInt: true, vzero: "v := byte(1)", mutate: []string{`s = "zz"`}},
		{name: "conv:string-of-bytes", setup: []string{`bs := []byte("h\xc3\xa9y\xff")`}, expr: "string(bs)", nowrap: true, hasVal: true, keyInt: true, vzero: "v := rune(-1)",
			mutate: []string{`bs[1], bs[2], bs[3] = 'X', 'Y', 'Z'`, `bs = bs[:1]`, `bs = nil`, `copy(bs, "wxyz!")`}},
		{name: "conv:defined-string-of-bytes", setup: []string{`type text string`, `bs := []byte("abcd")`}, expr: "text(bs)", nowrap: true, hasVal: true, keyInt: true, vzero: "v := rune(-1)",
			mutate: []string{`bs[1], bs[3] = 'X', 'Z'`, `bs = append(bs[:0], "q"...)`}},
		{name: "conv:string-of-runes", setup: []string{`rs := []rune("aé€z")`}, expr: "string(rs)", nowrap: true, hasVal: true, keyInt: true, vzero: "v := rune(-1)",
			mutate: []string{`rs[1], rs[2] = 'X', 'Y'`, `rs = rs[:1]`}},
		{name: "conv:string-of-defined-bytes", setup: []string{`type raw []byte`, `bs := raw("abcd")`}, expr: "string(bs)", nowrap: true, hasVal: true, keyInt: true, vzero: "v := rune(-1)",
			mutate: []string{`bs[2] = 'X'`}},
		{name: "conv:slice-type-of-slice", setup: []string{`type ints []int`, `xs := []int{11, 22, 33}`}, expr: "ints(xs)", nowrap: true, hasVal: true, keyInt: true,
			mutate: []string{`xs[2] = 99`, `xs = xs[:1]`}},
		{name: "conv:slice-of-array", setup: []string{`arr := [3]int{11, 22, 33}`}, expr: "arr[:]", nowrap: true, hasVal: true, keyInt: true,
			mutate: []string{`arr[2] = 99`, `arr = [3]int{7, 8, 9}`}},
		// kinds the compiler leaves native (a yield in the loop body is rejected): behaviour must stay Go's
		{name: "ptr-array", setup: []string{`c := &[3]int{11, 22, 33}`}, hasVal: true, keyInt: true, mutate: []string{`c[2] = 99`, `c = &[3]int{7, 8, 9}`}, bodies: []string{"native", "closure", "closure-var-update", "native-break-continue"}},
		{name: "ptr-array:nil", setup: []string{`var c *[3]int`}, hasVal: true, keyInt: true, defineOnly: true, bodies: []string{"native", "closure", "closure-var-update", "native-break-continue"}},
		{name: "func:seq2", setup: []string{`c := func(yield func(int, int) bool) {`, `	for i := 0; i < 3; i++ {`, `		tr.E(8)`, `		if !yield(i, i*11) {`, `			return`, `		}`, `	}`, `}`}, hasVal: true, keyInt: true, nowrap: true, bodies: []string{"native", "closure", "closure-var-update", "native-break-continue"}},
	}
}

// header renders the range clause; returns the text and the names bound.
func rangeHeader(k rkind, form string, rangeExpr string) (decl []string, head string, key, val string) {
	switch form {
	case "none":
		return nil, fmt.Sprintf("for range %s {", rangeExpr), "", ""
	case "k:=":
		return nil, fmt.Sprintf("for k := range %s {", rangeExpr), "k", ""
	case "k,_:=":
		return nil, fmt.Sprintf("for k, _ := range %s {", rangeExpr), "k", ""
	case "k,v:=":
		return nil, fmt.Sprintf("for k, v := range %s {", rangeExpr), "k", "v"
	case "_,v:=":
		return nil, fmt.Sprintf("for _, v := range %s {", rangeExpr), "", "v"
	case "k=":
		return []string{"k := -1"}, fmt.Sprintf("for k = range %s {", rangeExpr), "k", ""
	case "k,v=":
		vz := "v := -1"
		if strings.HasPrefix(k.name, "string") {
			vz = "v := rune(-1)"
		}
		if k.vzero != "" {
			vz = k.vzero
		}
		return []string{"k := -1", vz}, fmt.Sprintf("for k, v = range %s {", rangeExpr), "k", "v"
	case "_,v=":
		vz := "v := -1"
		if strings.HasPrefix(k.name, "string") {
			vz = "v := rune(-1)"
		}
		if k.vzero != "" {
			vz = k.vzero
		}
		return []string{vz}, fmt.Sprintf("for _, v = range %s {", rangeExpr), "", "v"
	}
	panic("form")
}

func formsFor(k rkind) []string {
	if k.defineOnly {
		if k.hasVal {
			return []string{"none", "k:=", "k,_:=", "k,v:=", "_,v:="}
		}
		return []string{"none", "k:="}
	}
	if k.hasVal {
		return []string{"none", "k:=", "k,_:=", "k,v:=", "_,v:=", "k=", "k,v=", "_,v="}
	}
	return []string{"none", "k:=", "k="}
}

func valueExpr(k rkind, key, val string) string {
	kc, vc := k.kconv, k.vconv
	if kc == "" {
		kc = "%s"
	}
	if vc == "" {
		vc = "int(%s)"
	}
	switch {
	case key != "" && val != "":
		return fmt.Sprintf(kc+"*1000 + "+vc, key, val)
	case key != "":
		return fmt.Sprintf(kc, key)
	case val != "":
		return fmt.Sprintf(vc, val)
	}
	return "1"
}

// rangeProgram builds one program.
func rangeProgram(k rkind, form, body, mutation string, wrapExpr bool, n int) *e1.Program {
	var b strings.Builder
	ind := 1
	line := func(format string, a ...any) {
		b.WriteString(strings.Repeat("\t", ind))
		fmt.Fprintf(&b, format, a...)
		b.WriteByte('\n')
	}
	b.WriteString("func §gen() ITER[int] GEN[int]{\n")
	for _, s := range k.setup {
		line("%s", s)
	}
	rexpr := "c"
	if k.expr != "" {
		rexpr = k.expr
	}
	if wrapExpr && !k.nowrap {
		rexpr = "tr.X(1, " + rexpr + ")"
	}
	decl, head, key, val := rangeHeader(k, form, rexpr)
	for _, d := range decl {
		line("%s", d)
	}
	ve := valueExpr(k, key, val)
	feats := []string{"range:" + k.name, "range-form:" + form, "range-body:" + body}
	if mutation != "" {
		feats = append(feats, "range-mutation")
	}
	if strings.HasPrefix(k.name, "array") {
		if wrapExpr && !k.nowrap {
			feats = append(feats, "range-array-nonaddressable")
		}
		if mutation != "" && val != "" {
			feats = append(feats, "range-array-mutated-with-value")
		}
	}
	mut := func() {
		if mutation != "" {
			line("if n == 0 {")
			line("\t%s", mutation)
			line("}")
		}
		line("n++")
	}
	switch body {
	case "yield":
		line("n := 0")
		line("%s", head)
		ind++
		line("YIELD(%s)", ve)
		mut()
		line("tr.V(2, %s)", ve)
		ind--
		line("}")
	case "native":
		// non-yielding range loop inside a generator: still rewritten by the compiler
		line("n, sum := 0, 0")
		line("%s", head)
		ind++
		line("sum += tr.V(2, %s)", ve)
		mut()
		ind--
		line("}")
		line("YIELD(sum)")
	case "closure":
		// range loop inside an ordinary closure nested in the generator
		line("n := 0")
		line("f := func() int {")
		ind++
		line("sum := 0")
		line("%s", head)
		ind++
		line("sum += tr.V(2, %s)", ve)
		mut()
		ind--
		line("}")
		line("return sum")
		ind--
		line("}")
		line("YIELD(f())")
		line("YIELD(f())")
	case "closure-var-update":
		// as above, and the body assigns to the iteration variable (which must not steer the iteration); the
		// `=` forms read the variable after the loop
		line("n := 0")
		line("f := func() int {")
		ind++
		line("sum := 0")
		line("%s", head)
		ind++
		line("sum += tr.V(2, %s)", ve)
		if key != "" && k.keyInt && !strings.HasPrefix(k.name, "chan") {
			line("%s += 2", key)
		}
		mut()
		ind--
		line("}")
		if strings.HasSuffix(form, "=") && !strings.HasSuffix(form, ":=") && (!k.maporder) {
			line("sum += 1000 * tr.V(3, %s)", ve)
		}
		line("return sum")
		ind--
		line("}")
		line("YIELD(f())")
		line("YIELD(f())")
	case "break-continue":
		line("n := 0")
		line("%s", head)
		ind++
		line("if tr.B(3) {")
		line("\tn++")
		line("\tcontinue")
		line("}")
		line("YIELD(%s)", ve)
		mut()
		line("if tr.B(4) {")
		line("\tbreak")
		line("}")
		ind--
		line("}")
		line("YIELD(-1)")
	case "native-break-continue":
		// non-yielding loop left by break / continued, decided by the tape
		line("n, sum := 0, 0")
		line("%s", head)
		ind++
		line("if tr.B(3) {")
		line("\tn++")
		line("\tcontinue")
		line("}")
		line("sum += tr.V(2, %s)", ve)
		mut()
		line("if tr.B(4) {")
		line("\tbreak")
		line("}")
		ind--
		line("}")
		line("YIELD(sum)")
		line("YIELD(-1)")
	case "native-loop-var-update":
		// non-yielding body that assigns to the iteration variable: must not affect the iteration
		line("n, sum := 0, 0")
		line("%s", head)
		ind++
		line("sum += tr.V(2, %s)", ve)
		if key != "" && k.keyInt && !strings.HasPrefix(k.name, "chan") {
			line("%s++", key)
			line("%s *= 2", key)
		}
		mut()
		ind--
		line("}")
		line("YIELD(sum)")
	case "nested":
		line("n := 0")
		line("%s", head)
		ind++
		line("for j := range 2 {")
		line("\tYIELD(%s*10 + j)", ve)
		line("}")
		mut()
		line("for _, w := range []int{7} {")
		line("\ttr.V(2, w)")
		line("}")
		ind--
		line("}")
	case "capture":
		// closures / child generators capture the iteration variables and are used after later iterations:
		// every iteration has its own variables (Go >= 1.22)
		line("n := 0")
		line("var fs []func() int")
		line("%s", head)
		ind++
		line("fs = append(fs, func() int { return %s })", ve)
		line("YIELD(fs[0]())")
		mut()
		ind--
		line("}")
		line("for _, f := range fs {")
		line("\tYIELD(f())")
		line("}")
	case "yield-after-loop-var-update":
		// the body modifies the iteration variables: must not affect the iteration
		line("n := 0")
		line("%s", head)
		ind++
		line("YIELD(%s)", ve)
		if key != "" && k.keyInt && !strings.HasPrefix(k.name, "chan") {
			line("%s += 100", key)
		}
		mut()
		ind--
		line("}")
	}
	if (form == "k=" || form == "k,v=" || form == "_,v=") && !k.maporder {
		// the final values of the assigned variables are observable
		if key != "" {
			line("YIELD(int(%s))", key)
		}
		if val != "" {
			line("YIELD(int(%s))", val)
		}
	}
	line("tr.U(n)")
	line("RETNIL")
	b.WriteString("}GEN\n")
	b.WriteString("func §E() { drv.Run[int](func() drv.It[int] { it := §gen(); return it }) }\n")
	text := b.String()
	h := sha256.Sum256([]byte(text))
	p := &e1.Program{
		Name:     fmt.Sprintf("g:range:%d", n),
		Neutral:  text,
		Features: feats,
		Shape:    hex.EncodeToString(h[:])[:12],
		Style:    render.Style(n % int(render.NStyles)),
		MapOrder: k.maporder,
		MaxPaths: 24,
	}
	return p
}

// Range returns the systematic range stream; sample < 1 keeps a PRNG subset.
func Range(seed int64, keep int, quarantine map[string]bool) (progs []*e1.Program, total int) {
	allBodies := []string{"yield", "native", "closure", "closure-var-update", "break-continue", "native-break-continue", "nested", "yield-after-loop-var-update", "native-loop-var-update", "capture"}
	var all []*e1.Program
	n := 0
	for _, k := range rangeKinds() {
		for _, form := range formsFor(k) {
			bodies := allBodies
			if k.bodies != nil {
				bodies = k.bodies
			}
			for _, body := range bodies {
				muts := append([]string{""}, k.mutate...)
				for mi, m := range muts {
					if k.maporder && (body == "break-continue" || body == "nested" || body == "native-break-continue" || body == "capture") {
						continue // order-dependent effects are not comparable for multi-entry maps
					}
					wrap := (n+mi+int(seed&1))%2 == 0
					p := rangeProgram(k, form, body, m, wrap, n)
					n++
					if quarantined(p, quarantine) {
						continue
					}
					all = append(all, p)
				}
			}
		}
	}
	total = len(all)
	if keep > 0 && keep < len(all) {
		rng := rand.New(rand.NewSource(seed))
		rng.Shuffle(len(all), func(i, j int) { all[i], all[j] = all[j], all[i] })
		all = all[:keep]
	}
	return all, total
}
