package genr

import (
	"fmt"
	"math/rand"
	"strings"

	"covr/internal/e1"
	"covr/internal/render"
)

// Injection of ONE unsupported construct at a PRNG-chosen statement position of a
// PRNG control-flow program (C12). '#' in the code is replaced by the statement id,
// which keeps labels and variable names unique.

type construct struct {
	name string
	// code returns the statement text; inLoop tells whether break/continue may be used
	code func(rng *rand.Rand, inLoop bool) string
}

func exitIn(rng *rand.Rand, inLoop bool, ind string) string {
	opts := []string{"", ind + "break\n"}
	if inLoop {
		opts = append(opts, ind+"continue\n", ind+"if tr.B(#5) {\n"+ind+"\tcontinue\n"+ind+"}\n")
	}
	opts = append(opts, ind+"if tr.B(#6) {\n"+ind+"\tbreak\n"+ind+"}\n")
	return opts[rng.Intn(len(opts))]
}

var constructs = []construct{
	{"select-native", func(rng *rand.Rand, inLoop bool) string {
		return "ch# := make(chan int, 1)\nch# <- #\nselect {\ncase v# := <-ch#:\n\ttr.V(#1, v#)\n" + exitIn(rng, inLoop, "\t") + "default:\n\ttr.E(#2)\n}\ntr.E(#3)"
	}},
	{"select-yield", func(rng *rand.Rand, inLoop bool) string {
		return "ch# := make(chan int, 1)\nch# <- #\nselect {\ncase v# := <-ch#:\n\tYIELD(v#)\n" + exitIn(rng, inLoop, "\t") + "default:\n\ttr.E(#2)\n}\ntr.E(#3)"
	}},
	{"range-func-native", func(rng *rand.Rand, inLoop bool) string {
		return "sq# := func(yield func(int) bool) {\n\tfor i := 0; i < 3; i++ {\n\t\tif !yield(i * i) {\n\t\t\treturn\n\t\t}\n\t}\n}\nfor v# := range sq# {\n\ttr.V(#1, v#)\n" + exitIn(rng, true, "\t") + "\ttr.E(#2)\n}\ntr.E(#3)"
	}},
	{"range-func-yield", func(rng *rand.Rand, inLoop bool) string {
		return "sq# := func(yield func(int) bool) {\n\tfor i := 0; i < 3; i++ {\n\t\tif !yield(i * i) {\n\t\t\treturn\n\t\t}\n\t}\n}\nfor v# := range sq# {\n\tYIELD(v#)\n" + exitIn(rng, true, "\t") + "\ttr.E(#2)\n}"
	}},
	{"range-ptr-array-native", func(rng *rand.Rand, inLoop bool) string {
		return "arr# := [3]int{5, 6, 7}\nfor i#, v# := range &arr# {\n\ttr.V(#1, i#*100+v#)\n" + exitIn(rng, true, "\t") + "\ttr.E(#2)\n}\ntr.E(#3)"
	}},
	{"range-ptr-array-yield", func(rng *rand.Rand, inLoop bool) string {
		return "arr# := [3]int{5, 6, 7}\nfor i#, v# := range &arr# {\n\tYIELD(i#*100 + v#)\n" + exitIn(rng, true, "\t") + "}"
	}},
	{"defer", func(rng *rand.Rand, inLoop bool) string {
		return "defer tr.E(#1)\ntr.E(#2)"
	}},
	{"goto-loop", func(rng *rand.Rand, inLoop bool) string {
		return "n# := 0\nagain#:\nn#++\nYIELD(#*100 + n#)\nif n# < 2 {\n\tgoto again#\n}"
	}},
	{"goto-native", func(rng *rand.Rand, inLoop bool) string {
		return "n# := 0\nagain#:\nn#++\ntr.V(#1, n#)\nif n# < 2 {\n\tgoto again#\n}"
	}},
	{"labelled-break-yielding", func(rng *rand.Rand, inLoop bool) string {
		return "outer#:\nfor a := 0; a < 2; a++ {\n\tfor b := 0; b < 2; b++ {\n\t\tYIELD(#*100 + a*10 + b)\n\t\tif b == 1 {\n\t\t\tbreak outer#\n\t\t}\n\t}\n}"
	}},
	{"labelled-continue-native", func(rng *rand.Rand, inLoop bool) string {
		return "next#:\nfor a := 0; a < 2; a++ {\n\tfor b := 0; b < 2; b++ {\n\t\tif b == 1 {\n\t\t\tcontinue next#\n\t\t}\n\t\ttr.V(#1, a*10+b)\n\t}\n}"
	}},
	// a labelled loop whose label is only referenced from its own body, the reference sitting in an if / switch /
	// select / inner loop / block (a tool that "drops redundant labels" must still leave the LOOP from inside a switch)
	{"label-own-loop", func(rng *rand.Rand, inLoop bool) string {
		ref := []string{"break", "continue"}[rng.Intn(2)] + " own#"
		body := "tr.V(#1, a#)\n"
		if rng.Intn(3) > 0 {
			body = "YIELD(#*100 + a#)\n"
		}
		var jump string
		switch rng.Intn(7) {
		case 0:
			jump = "if tr.B(#2) {\n\t" + ref + "\n}\n"
		case 1:
			jump = "switch tr.N(#2, 2) {\ncase 0:\n\t" + ref + "\ndefault:\n\ttr.E(#3)\n}\n"
		case 2:
			jump = "switch {\ncase tr.B(#2):\n\ttr.E(#3)\n\t" + ref + "\n}\n"
		case 3:
			jump = "ch# := make(chan int, 1)\nch# <- 1\nselect {\ncase <-ch#:\n\tif tr.B(#2) {\n\t\t" + ref + "\n\t}\n}\n"
		case 4:
			jump = "for b# := 0; b# < 2; b#++ {\n\ttr.V(#3, b#)\n\tif tr.B(#2) {\n\t\t" + ref + "\n\t}\n}\n"
		case 5:
			jump = "for range 2 {\n\tif tr.B(#2) {\n\t\t" + ref + "\n\t}\n\ttr.E(#3)\n}\n"
		default:
			jump = "switch x# := any(a#).(type) {\ncase int:\n\tif x# > 0 {\n\t\t" + ref + "\n\t}\n}\n"
		}
		tail := "tr.E(#4)\n"
		if rng.Intn(2) == 0 {
			tail = "YIELD(#*100 + 50 + a#)\n"
		}
		if rng.Intn(2) == 0 {
			return "own#:\nfor a# := 0; a# < 3; a#++ {\n" + body + jump + tail + "}\ntr.E(#5)"
		}
		return "own#:\nfor a# := range 3 {\n" + body + jump + tail + "}\ntr.E(#5)"
	}},
	// labelled block / switch left by a labelled break
	{"label-block-or-switch", func(rng *rand.Rand, inLoop bool) string {
		y := "tr.E(#2)"
		if rng.Intn(2) == 0 {
			y = "YIELD(#*100)"
		}
		if rng.Intn(2) == 0 {
			return "blk#:\nswitch {\ndefault:\n\t" + y + "\n\tif tr.B(#1) {\n\t\tbreak blk#\n\t}\n\tYIELD(#*100 + 1)\n}\ntr.E(#3)"
		}
		return "sw#:\nswitch tr.N(#1, 2) {\ncase 0:\n\tfor i# := 0; i# < 2; i#++ {\n\t\t" + y + "\n\t\tif tr.B(#4) {\n\t\t\tbreak sw#\n\t\t}\n\t}\n\tYIELD(#*100 + 1)\ndefault:\n\ttr.E(#5)\n}\ntr.E(#3)"
	}},
	// defer at every position relative to the last yield of the function
	{"defer-around-last-yield", func(rng *rand.Rand, inLoop bool) string {
		switch rng.Intn(3) {
		case 0:
			return "if tr.B(#1) {\n\tYIELD(#*100)\n\tdefer tr.E(#2)\n\ttr.E(#3)\n}\ntr.E(#4)"
		case 1:
			return "{\n\tYIELD(#*100)\n\tdefer func() { tr.E(#2) }()\n}\ntr.E(#4)"
		}
		return "switch tr.N(#1, 2) {\ncase 0:\n\tYIELD(#*100)\n\tdefer tr.E(#2)\ndefault:\n\ttr.E(#3)\n}\ntr.E(#4)"
	}},
	{"fallthrough-yielding", func(rng *rand.Rand, inLoop bool) string {
		return "switch tr.N(#1, 2) {\ncase 0:\n\tYIELD(#*100)\n\tfallthrough\ncase 1:\n\tYIELD(#*100 + 1)\n}"
	}},
	{"fallthrough-native", func(rng *rand.Rand, inLoop bool) string {
		return "switch tr.N(#1, 2) {\ncase 0:\n\ttr.E(#2)\n\tfallthrough\ncase 1:\n\ttr.E(#3)\n" + exitIn(rng, inLoop, "\t") + "}\ntr.E(#4)"
	}},
}

// lists collects every statement list of the tree together with its loop context.
type slot struct {
	list   *[]*S
	inLoop bool
}

func slots(xs *[]*S, inLoop bool, out *[]slot) {
	*out = append(*out, slot{xs, inLoop})
	for _, s := range *xs {
		switch s.K {
		case "for":
			slots(&s.A, true, out)
		case "switch":
			for i := range s.Cases {
				slots(&s.Cases[i], inLoop, out)
			}
		default:
			if s.A != nil {
				slots(&s.A, inLoop, out)
			}
			if s.B != nil {
				slots(&s.B, inLoop, out)
			}
		}
	}
}

func ifNodes(xs []*S, out *[]*S) {
	for _, s := range xs {
		if s.K == "if" {
			*out = append(*out, s)
		}
		ifNodes(s.A, out)
		ifNodes(s.B, out)
		for _, c := range s.Cases {
			ifNodes(c, out)
		}
	}
}

// Inject returns n PRNG programs with one injected unsupported construct each.
func Inject(n int, seed int64, quarantine map[string]bool) []*e1.Program {
	rng := rand.New(rand.NewSource(seed))
	var out []*e1.Program
	for tries := 0; len(out) < n && tries < n*60; tries++ {
		g := &rgen{rng: rng, p: Ctl, left: 5 + rng.Intn(16)}
		xs := g.list(0, wctx{}, 4)
		if !containsYield(xs) || !wellFormed(xs, wctx{}) {
			continue
		}
		xs = cloneList(xs)
		name := ""
		if rng.Intn(6) == 0 {
			// a yield in the initialiser of an if / else-if arm
			var ifs []*S
			ifNodes(xs, &ifs)
			if len(ifs) == 0 {
				continue
			}
			// prefer chained else-if arms (they are rewritten through a different path than a plain if)
			var chained []*S
			for _, f := range ifs {
				if f.Chain && len(f.B) == 1 {
					chained = append(chained, f.B[0])
				}
			}
			if len(chained) > 0 && rng.Intn(3) != 0 {
				chained[rng.Intn(len(chained))].Init = "yield"
			} else {
				ifs[rng.Intn(len(ifs))].Init = "yield"
			}
			name = "yield-in-if-init"
		} else {
			var sl []slot
			slots(&xs, false, &sl)
			s := sl[rng.Intn(len(sl))]
			c := constructs[rng.Intn(len(constructs))]
			pos := rng.Intn(len(*s.list) + 1)
			// never after a terminator
			if pos > 0 {
				k := (*s.list)[pos-1].K
				if k == "break" || k == "continue" || k == "return" {
					pos--
				}
			}
			raw := &S{K: "raw", Form: c.name, Code: c.code(rng, s.inLoop)}
			nl := append([]*S{}, (*s.list)[:pos]...)
			nl = append(nl, raw)
			nl = append(nl, (*s.list)[pos:]...)
			*s.list = nl
			name = c.name
		}
		if !wellFormed(xs, wctx{}) {
			continue
		}
		p := Program(fmt.Sprintf("r:inject:%d:%s", len(out), name), xs, render.Style(rng.Intn(int(render.NStyles))), "inject")
		if quarantined(p, quarantine) {
			continue
		}
		if name == "yield-in-if-init" {
			p.Features = append(p.Features, "unsupported:yield-in-if-init")
		}
		if strings.Contains(p.Neutral, "goto ") && strings.Count(p.Neutral, ":=") > 3 {
			// a goto must not jump over variable declarations (Go rule): labels are only placed before
			// their own counter declaration, which is fine; nothing to do
		}
		p.Isolate = true
		p.Expect = "reject-or-equiv"
		out = append(out, p)
	}
	return out
}
