package genr

import (
	"crypto/sha256"
	"encoding/hex"
	"fmt"
	"math/rand"
	"sort"
	"strings"

	"covr/internal/e1"
	"covr/internal/render"
)

// The bystander profile (C13): plain declarations co-located with a generator.
// Every program combines several closure wrappers `func(ps) R { return f(ps) }`
// over callees of different kinds, creates them, then changes whatever the
// callee expression depends on (variable, receiver, field, index) and only then
// calls them. The natively built SOURCE package is the reference.

const bystanderDecls = `
type §T struct{ v int }

func (t *§T) Get() int      { return tr.V(1, t.v) }
func (t §T) Val() int       { return tr.V(2, t.v) }
func (t *§T) Add(x int) int { return tr.V(3, t.v+x) }

type §I interface{ Get() int }

type §W struct {
	§T
	f func(int) int
	p *§T
}

var §gstep = func(x int) int { return x + 1 }
var §gT = &§T{v: 5}

func §double(x int) int        { return 2 * x }
func §id[A any](x A) A         { return x }
func §conv[A, B any](x A) B    { var z B; tr.U(x); return z }
func §sum(xs ...int) int {
	t := 0
	for _, x := range xs {
		t += x
	}
	return t
}
func §mkf(k int) func(int) int {
	tr.E(900 + k)
	return func(x int) int { return x + k }
}
func §apply1(f func(int) int, x int) int   { return f(x) }
func §apply0(f func() int) int             { return f() }
func §newT(v int) *§T                      { return &§T{v: v} }

// a generator, so that the file is processed (as declaration and as literal)
func §tiny() ITER[int] GEN[int]{
	YIELD(1)
	RETNIL
}GEN

var §lit = func() ITER[int] GEN[int]{
	YIELD(2)
	RETNIL
}GEN
`

type bstep struct {
	name  string
	setup string // creates the wrapper g# (and what it depends on)
	poke  string // changes the dependency after creation
	call  string // calls the wrapper and logs the result
}

func bysteps() []bstep {
	return []bstep{
		{"local-funcvar", "f# := func(x int) int { return x + 1 }\ng# := func(x int) int { return f#(x) }", "f# = func(x int) int { return x * 100 }", "tr.V(#0, g#(3))"},
		{"package-funcvar", "g# := func(x int) int { return §gstep(x) }", "§gstep = func(x int) int { return x + 1000 }", "tr.V(#0, g#(3))\n§gstep = func(x int) int { return x + 1 }"},
		{"pointer-method-value", "p# := &§T{v: 1}\ng# := func() int { return p#.Get() }", "p# = &§T{v: 2}", "tr.V(#0, g#())"},
		{"pointer-method-nil-at-creation", "var p# *§T\ng# := func() int { return p#.Get() }", "p# = &§T{v: 7}", "tr.V(#0, g#())"},
		{"value-receiver-mutated", "s# := §T{v: 1}\ng# := func() int { return s#.Val() }", "s#.v = 9", "tr.V(#0, g#())"},
		{"value-var-pointer-method", "s# := §T{v: 1}\ng# := func(x int) int { return s#.Add(x) }", "s#.v = 50", "tr.V(#0, g#(1))"},
		{"interface-method-value", "var i# §I = &§T{v: 3}\ng# := func() int { return i#.Get() }", "i# = &§T{v: 4}", "tr.V(#0, g#())"},
		{"interface-nil-at-creation", "var i# §I\ng# := func() int { return i#.Get() }", "i# = &§T{v: 6}", "tr.V(#0, g#())"},
		{"struct-field-func", "w# := §W{f: func(x int) int { return x + 1 }}\ng# := func(x int) int { return w#.f(x) }", "w#.f = func(x int) int { return x - 1 }", "tr.V(#0, g#(10))"},
		{"struct-field-pointer-method", "w# := §W{p: &§T{v: 1}}\ng# := func() int { return w#.p.Get() }", "w#.p = &§T{v: 8}", "tr.V(#0, g#())"},
		{"embedded-method", "w# := &§W{}\nw#.v = 1\ng# := func() int { return w#.Get() }", "w# = &§W{}\nw#.v = 11", "tr.V(#0, g#())"},
		{"package-pointer-var", "g# := func() int { return §gT.Get() }", "§gT = &§T{v: 77}", "tr.V(#0, g#())\n§gT = &§T{v: 5}"},
		{"call-result-callee", "g# := func(x int) int { return §mkf(#)(x) }", "tr.E(#1)", "tr.V(#0, g#(1))\ntr.V(#2, g#(2))"},
		{"indexed-callee", "fs# := []func() int{func() int { return 1 }, func() int { return 2 }}\nk# := 0\ng# := func() int { return fs#[k#]() }", "k# = 1", "tr.V(#0, g#())"},
		{"map-callee", "m# := map[string]func() int{\"a\": func() int { return 1 }}\ng# := func() int { return m#[\"a\"]() }", "m#[\"a\"] = func() int { return 2 }", "tr.V(#0, g#())"},
		{"stable-package-func", "g# := func(x int) int { return §double(x) }", "tr.E(#1)", "tr.V(#0, §apply1(g#, 21))"},
		{"generic-inferred", "g# := func(x int) int { return §id(x) }", "tr.E(#1)", "tr.V(#0, g#(4))"},
		{"generic-explicit", "g# := func(x int) int { return §id[int](x) }", "tr.E(#1)", "tr.V(#0, §apply1(g#, 4))"},
		{"generic-partial", "g# := func(x int) float64 { return §conv[int, float64](x) }\nh# := func(x string) float64 { return §conv[string, float64](x) }", "tr.E(#1)", "tr.V(#0, int(g#(4)+h#(\"s\")))"},
		{"builtin-len", "g# := func(s []int) int { return len(s) }\nh# := func(s string) int { return len(s) }", "tr.E(#1)", "tr.V(#0, g#([]int{1, 2})+h#(\"abc\"))"},
		{"conversion", "type C# float64\ng# := func(x float64) C# { return C#(x) }", "tr.E(#1)", "tr.V(#0, int(g#(2.5)*2))"},
		{"variadic-spread", "g# := func(xs ...int) int { return §sum(xs...) }", "tr.E(#1)", "tr.V(#0, g#(1, 2, 3))"},
		{"variadic-fixed", "g# := func(a, b int) int { return §sum(a, b) }", "tr.E(#1)", "tr.V(#0, g#(4, 5))"},
		{"widening-result", "var g# func() §I = func() §I { return §newT(3) }", "tr.E(#1)", "tr.V(#0, g#().Get())"},
		{"param-reorder", "g# := func(a, b int) int { return §sum2#(b, a) }", "tr.E(#1)", "tr.V(#0, g#(1, 2))"},
		{"closure-over-loop-var", "var hs# []func() int\nfor i := 0; i < 3; i++ {\n\ths# = append(hs#, func() int { return §double(i) })\n}", "tr.E(#1)", "for _, h := range hs# {\n\ttr.V(#0, h())\n}"},
		{"defer-and-recover", "g# := func() (r int) {\n\tdefer func() { r += tr.V(#1, 100) }()\n\treturn §double(1)\n}", "tr.E(#2)", "tr.V(#0, g#())"},
		{"method-expression", "g# := func(t *§T) int { return (*§T).Get(t) }", "tr.E(#1)", "tr.V(#0, g#(&§T{v: 12}))"},
	}
}

// Bystander returns n PRNG bystander programs.
func Bystander(n int, seed int64) []*e1.Program {
	rng := rand.New(rand.NewSource(seed))
	steps := bysteps()
	var out []*e1.Program
	for i := 0; i < n; i++ {
		k := 3 + rng.Intn(4)
		perm := rng.Perm(len(steps))[:k]
		var setup, poke, call, seqd, extra strings.Builder
		var feats []string
		for j, si := range perm {
			st := steps[si]
			id := fmt.Sprint(j + 1)
			sub := func(s string) string { return strings.ReplaceAll(s, "#", id) }
			setup.WriteString(sub(st.setup) + "\n")
			poke.WriteString(sub(st.poke) + "\n")
			call.WriteString("{\n" + indentTabs(sub(st.call)) + "}\n")
			seqd.WriteString(sub(st.setup) + "\n" + sub(st.poke) + "\n{\n" + indentTabs(sub(st.call)) + "}\n")
			feats = append(feats, "eta:"+st.name)
			if st.name == "param-reorder" {
				extra.WriteString(sub("func §sum2#(a, b int) int { return a*10 + b }\n"))
			}
		}
		// phase order: create all, change all dependencies, call all — or one wrapper after the other
		var body strings.Builder
		if rng.Intn(2) == 0 {
			body.WriteString(setup.String() + poke.String() + call.String())
		} else {
			body.WriteString(seqd.String())
		}
		text := bystanderDecls + extra.String() + "func §E() {\n" + indentTabs(body.String()) + "}\n"
		sort.Strings(feats)
		h := sha256.Sum256([]byte(text))
		out = append(out, &e1.Program{
			Name: fmt.Sprintf("r:bystander:%d", i), Neutral: text, Features: feats, Native: true,
			Shape: hex.EncodeToString(h[:])[:12], Style: render.Style(rng.Intn(int(render.NStyles))), Hist: []int{},
		})
	}
	return out
}

func indentTabs(s string) string {
	lines := strings.Split(strings.TrimRight(s, "\n"), "\n")
	for i, l := range lines {
		lines[i] = "\t" + l
	}
	return strings.Join(lines, "\n") + "\n"
}
