// Package engine contains the check engines (E1..E7 of DESIGN.md).
package engine

import (
	"encoding/json"
	"fmt"
	"os"
	"path/filepath"
	"strconv"
	"time"

	"covr/internal/verdict"
	"covr/internal/work"
)

// Ctx is what every engine gets.
type Ctx struct {
	Property string
	Tier     string
	Seed     int64
	Only     string // replay a single case
	Rep      *verdict.Report
}

func (c *Ctx) Thorough() bool { return c.Tier == "thorough" }

// ProbeResult mirrors probes/plib.Result.
type ProbeResult struct {
	Evaluations  int                 `json:"evaluations"`
	Distinct     int                 `json:"distinct"`
	Rule         string              `json:"rule"`
	Exhaustive   bool                `json:"exhaustive"`
	Samples      []any               `json:"samples"`
	Counters     map[string]int      `json:"counters"`
	Extra        map[string]any      `json:"extra"`
	Violations   []verdict.Violation `json:"violations"`
	Inconclusive []string            `json:"inconclusive"`
	Assumptions  []string            `json:"assumptions"`
}

// RunProbe builds probes/<probe> against the current tree and runs it as a child
// process; its result file is merged into the report.
func RunProbe(c *Ctx, sc *work.Scratch, probe string, buildFlags []string, env []string, extraArgs []string, timeout time.Duration, keyPrefix string) *ProbeResult {
	if err := sc.CopyProbe("plib", probe); err != nil {
		c.Rep.HarnessError(err.Error())
		return nil
	}
	flags := append([]string{"-tags", "verif"}, buildFlags...)
	bin, br := sc.Build(probe, "./"+probe, flags...)
	if br.Code != 0 {
		c.Rep.HarnessError(fmt.Sprintf("build of probe %s failed:\n%s", probe, br.Out))
		return nil
	}
	out := filepath.Join(sc.Dir, probe+".result.json")
	os.Remove(out)
	args := []string{bin, "-tier", c.Tier, "-seed", strconv.FormatInt(c.Seed, 10), "-out", out}
	if c.Only != "" {
		args = append(args, "-only", c.Only)
	}
	args = append(args, extraArgs...)
	r := work.Run(work.Cmd{Dir: sc.Dir, Env: work.Env(env...), Argv: args, Timeout: timeout})
	if r.TimedOut {
		c.Rep.Inconclusive(fmt.Sprintf("probe %s: wall-clock watchdog fired after %s", probe, timeout))
		c.Rep.HarnessError(fmt.Sprintf("probe %s: watchdog fired (inconclusive)", probe))
		return nil
	}
	bs, err := os.ReadFile(out)
	if err != nil {
		c.Rep.HarnessError(fmt.Sprintf("probe %s produced no result (exit %d):\n%s", probe, r.Code, tail(string(r.Out), 6000)))
		return nil
	}
	var pr ProbeResult
	if err := json.Unmarshal(bs, &pr); err != nil {
		c.Rep.HarnessError(fmt.Sprintf("probe %s: bad result json: %v", probe, err))
		return nil
	}
	Merge(c, &pr, keyPrefix)
	return &pr
}

// Merge folds a probe result into the report.
func Merge(c *Ctx, pr *ProbeResult, keyPrefix string) {
	c.Rep.Eval(pr.Evaluations)
	for i := 0; i < pr.Distinct; i++ {
		c.Rep.Distinct(keyPrefix + "#" + strconv.Itoa(i))
	}
	if pr.Rule != "" {
		if c.Rep.Rule != "" {
			c.Rep.Rule += " | "
		}
		c.Rep.Rule += pr.Rule
	}
	for _, s := range pr.Samples {
		c.Rep.Sample(s)
	}
	for k, v := range pr.Counters {
		c.Rep.Count(k, v)
	}
	for k, v := range pr.Extra {
		c.Rep.Set(k, v)
	}
	for _, v := range pr.Violations {
		c.Rep.Violate(v)
	}
	for _, s := range pr.Inconclusive {
		c.Rep.Inconclusive(s)
	}
	c.Rep.Assumptions = append(c.Rep.Assumptions, pr.Assumptions...)
}

func tail(s string, n int) string {
	if len(s) > n {
		return "…" + s[len(s)-n:]
	}
	return s
}
