package engine

import (
	"fmt"
	"os"
	"os/exec"
	"path/filepath"
	"regexp"
	"strings"
	"time"

	"covr/internal/verdict"
	"covr/internal/work"
)

// compileProbeSource runs the real compiler over <probe>/src -> <probe>/out.
func compileProbeSource(c *Ctx, sc *work.Scratch, probe string) bool {
	if err := sc.CopyProbe("ccdrv", probe); err != nil {
		c.Rep.HarnessError(err.Error())
		return false
	}
	ccdrv, br := sc.Build("ccdrv", "./ccdrv", "-tags", "verif")
	if br.Code != 0 {
		c.Rep.HarnessError("build of compile driver failed:\n" + string(br.Out))
		return false
	}
	src := filepath.Join(sc.Dir, probe, "src")
	out := filepath.Join(sc.Dir, probe, "out")
	r := work.Run(work.Cmd{Dir: sc.Dir, Env: work.Env(), Argv: []string{ccdrv, "compile", src + ":" + out}, Timeout: 10 * time.Minute})
	if !strings.Contains(string(r.Out), "OK:") {
		c.Rep.HarnessError("compilation of the " + probe + " workload failed:\n" + tail(string(r.Out), 3000))
		return false
	}
	return true
}

var raceFrameRe = regexp.MustCompile(`(?m)^\s+(\S+)\(\)\n\s+(\S+):\d+`)

// C14 — iterators are independent under any interleaving and across goroutines (engine E5).
func C14(c *Ctx) {
	sc, err := work.New()
	if err != nil {
		c.Rep.HarnessError(err.Error())
		return
	}
	defer sc.Cleanup()
	if !compileProbeSource(c, sc, "schedmon") {
		return
	}
	// (a) deterministic schedules
	RunProbe(c, sc, "schedmon", nil, nil, []string{"-mode", "det"}, 30*time.Minute, "schedmon-det")
	// (b) goroutines under the race detector, repeated
	runs := 3
	if c.Thorough() {
		runs = 20
	}
	raceDir := filepath.Join(sc.Dir, "race")
	os.MkdirAll(raceDir, 0o755)
	reports := map[string]string{}
	total := 0
	for i := 0; i < runs; i++ {
		sub := *c
		sub.Seed = c.Seed*1000 + int64(i)
		logPath := filepath.Join(raceDir, fmt.Sprintf("run%d", i))
		// a racy runtime makes the detector write a report per access pair: the log is capped (the probe is stopped
		// once it exceeds 32 MiB; the reports written so far are judged and no further race run is made)
		capped := false
		stop := make(chan struct{})
		watch := func(prefix string) {
			t := time.NewTicker(300 * time.Millisecond)
			defer t.Stop()
			for {
				select {
				case <-stop:
					return
				case <-t.C:
					var size int64
					fs, _ := filepath.Glob(prefix + ".*")
					for _, f := range fs {
						if st, err := os.Stat(f); err == nil {
							size += st.Size()
						}
					}
					if size > 32<<20 {
						capped = true
						exec.Command("pkill", "-KILL", "-f", filepath.Join(sc.Dir, "bin", "schedmon")).Run()
						return
					}
				}
			}
		}
		go watch(logPath)
		pr := RunProbe(&sub, sc, "schedmon", []string{"-race"}, []string{"GORACE=halt_on_error=0 log_path=" + logPath}, []string{"-mode", "par"}, 30*time.Minute, fmt.Sprintf("schedmon-par%d", i))
		close(stop)
		if pr == nil && !capped {
			return
		}
		if capped {
			c.Rep.Count("race_runs_stopped_at_log_cap", 1)
			runs = i + 1
		}
		// and a fresh process whose goroutines are the very first users of the runtime (no warm-up)
		coldLog := filepath.Join(raceDir, fmt.Sprintf("cold%d", i))
		if !capped {
			if pc := RunProbe(&sub, sc, "schedmon", []string{"-race"}, []string{"GORACE=halt_on_error=0 log_path=" + coldLog}, []string{"-mode", "cold"}, 30*time.Minute, fmt.Sprintf("schedmon-cold%d", i)); pc == nil {
				return
			}
		}
		files, _ := filepath.Glob(logPath + ".*")
		more, _ := filepath.Glob(coldLog + ".*")
		files = append(files, more...)
		for _, f := range files {
			bs, _ := os.ReadFile(f)
			blocks := strings.Split(string(bs), "WARNING: DATA RACE")
			for _, b := range blocks[1:] {
				total++
				// de-duplicate by the outermost frames of both stacks (line numbers stripped)
				ms := raceFrameRe.FindAllStringSubmatch(b, -1)
				key := ""
				for _, m := range ms {
					key += m[1] + "@" + filepath.Base(m[2]) + ";"
				}
				if len(key) > 300 {
					key = key[:300]
				}
				if _, ok := reports[key]; !ok {
					reports[key] = "WARNING: DATA RACE" + trimTo(b, 3000)
				}
			}
		}
	}
	c.Rep.Count("race_reports_total", total)
	c.Rep.Count("race_reports_distinct", len(reports))
	c.Rep.Count("race_detector_runs", runs)
	for key, text := range reports {
		c.Rep.Violate(verdict.Violation{Case: "race:" + key, Sig: "data-race", What: "the race detector reported a data race while goroutines consumed their own iterators:\n" + text})
	}
	c.Rep.Rule = "13 closed generators (compiled loops, ranges over four DIFFERENT non-ASCII strings, over slices and maps, recursive tree walk and chain delegation, closures, switch, nested generator literal; one raw seq term). (a) every pair incl. the same generator twice x ALL interleavings of 4 advances each (70 per pair), PRNG triples (same generator twice + another) x ALL interleavings of 3 (thorough 4) advances each, PRNG 4-iterator schedules; oracle: every iterator's record (MoveNext result, Current, its own effect log per advance) equals its solo record. (b) 16 (thorough 64) goroutines x 40 (200) rounds, each goroutine advancing its own 4 iterators (neighbouring goroutines use distinct instances of the same recursive generators) with PRNG Gosched, built with -race, repeated 3 (20) times with GORACE=halt_on_error=0 log_path; oracle: zero DATA RACE blocks in the log files (counted, exit code not trusted), no panic, records equal solo records; plus 16 (64) depth-2500 delegation chains drained simultaneously, 300 recovered panics at nesting depth 100 followed by fresh iterators of every kind, and every generator's iterator handed back and forth between two goroutines through unbuffered channels (alternating advances). distinct = distinct schedules + distinct goroutine interleavings reconstructed from a global atomic step counter."
	c.Rep.Assumptions = append(c.Rep.Assumptions,
		"generators of the workload are closed: every side effect goes to the instance's own log, so any cross-iterator influence comes from the runtime or the generated code",
		"the race detector only sees the interleavings that happened; the evidence counts the distinct ones reconstructed from a global step counter",
		"porcupine is not used: with no shared object there is no concurrent history to linearise")
	c.Rep.RequireDistinct(500)
}
