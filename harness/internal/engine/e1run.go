package engine

import (
	"encoding/json"
	"fmt"
	"math/rand"
	"os"
	"sort"
	"strings"

	"covr/internal/e1"
	"covr/internal/genr"
	"covr/internal/verdict"
	"covr/internal/work"
)

// E1Spec says how a property judges the outcomes of the diff-trace engine.
type E1Spec struct {
	Programs []*e1.Program
	Opts     e1.Opts
	// Kinds of divergence that refute this property (CR-full, CR-values, SC-full, STUB, POSTSTOP).
	Kinds []string
	// AcceptanceViolations: a compiler panic / unbuildable output refutes the property (C11).
	AcceptanceViolations bool
	// NonTrivial decides whether a compared program counts for distinct_nontrivial.
	NonTrivial  func(o *e1.Outcome) bool
	MinDistinct int
	// Contexts: context variants (genr.Contexts) per directed program of the stream: 0 = tier default
	// (2 quick, all thorough), < 0 = none.
	Contexts int
	// Judge, if set, replaces the default per-outcome judgement (C12).
	Judge func(c *Ctx, o *e1.Outcome) bool
}

func logf(format string, a ...any) {
	if os.Getenv("COVERIF_VERBOSE") != "" {
		fmt.Fprintf(os.Stderr, "covr: "+format+"\n", a...)
	}
}

func kindSet(ks []string) map[string]bool {
	m := map[string]bool{}
	for _, k := range ks {
		m[k] = true
	}
	return m
}

// replayDoc is stored in replay files of E1 violations.
type replayDoc struct {
	Engine  string      `json:"engine"`
	Program *e1.Program `json:"program"`
	Stage1  bool        `json:"stage1"`
	Diff    *e1.Diff    `json:"diff,omitempty"`
	CoSrc   string      `json:"go_co_source,omitempty"`
	RefSrc  string      `json:"reference_source,omitempty"`
	Output  string      `json:"generated_code,omitempty"`
}

// RunE1 runs the pipeline and folds the outcomes into the report.
func RunE1(c *Ctx, spec E1Spec) []*e1.Outcome {
	// the quarantined input classes (known findings) are not part of any stream; the
	// directed witness of a known finding runs only for the property that lists it
	{
		q := c.Rep.QuarantinedFeatures()
		own := c.Rep.KnownCases()
		var kept []*e1.Program
		seenName := map[string]bool{}
		for _, p := range spec.Programs {
			if seenName[p.Name] {
				continue // the same directed case listed by two streams
			}
			seenName[p.Name] = true
			skip := false
			for _, f := range p.Features {
				if q[f] && !own[p.Name] {
					skip = true
				}
			}
			if skip {
				c.Rep.Count("programs_in_quarantined_class_skipped", 1)
				continue
			}
			if own[p.Name] {
				p.Isolate = true
			}
			kept = append(kept, p)
		}
		spec.Programs = kept
		// the body of every directed generator additionally in other syntactic contexts
		if spec.Contexts >= 0 && os.Getenv("COVERIF_NOCTX") == "" {
			per := spec.Contexts
			if per == 0 {
				per = 2
				if c.Thorough() {
					per = -1
				}
			}
			if v := os.Getenv("COVERIF_CTX"); v != "" { // experiments: variants per directed program (-1 = all kinds)
				fmt.Sscan(v, &per)
			}
			var directed []*e1.Program
			for _, p := range kept {
				if strings.HasPrefix(p.Name, "d:") && !own[p.Name] {
					directed = append(directed, p)
				}
			}
			ctx := genr.Contexts(directed, c.Seed, per, q)
			c.Rep.Count("context_variants_of_directed_programs", len(ctx))
			spec.Programs = append(spec.Programs, ctx...)
		}
	}
	// conditions that hold per FILE or per PACKAGE (is a name used anywhere, is this the first generator, how many
	// files are there) are masked when ~120 programs share a package: a PRNG sample of the stream is additionally
	// compiled alone, each program in a package (and file) of its own
	if os.Getenv("COVERIF_NOALONE") == "" && spec.Judge == nil {
		rng := rand.New(rand.NewSource(c.Seed*7919 + 17))
		n := 12
		if c.Thorough() {
			n = 48
		}
		var pool []*e1.Program
		for _, p := range spec.Programs {
			if !p.Isolate && !strings.Contains(p.Name, "+alone") {
				pool = append(pool, p)
			}
		}
		for i := 0; i < n && len(pool) > 0; i++ {
			k := rng.Intn(len(pool))
			q := *pool[k]
			pool = append(pool[:k], pool[k+1:]...) // without replacement: names stay unique
			q.Name += "+alone"
			q.Isolate = true
			spec.Programs = append(spec.Programs, &q)
		}
		c.Rep.Count("programs_additionally_compiled_alone", n)
	}
	progs := spec.Programs
	if c.Only != "" {
		var sel []*e1.Program
		for _, p := range progs {
			if p.Name == c.Only {
				sel = append(sel, p)
			}
		}
		if rf := os.Getenv("COVERIF_REPLAY_FILE"); rf != "" && len(sel) == 0 {
			if p := programFromReplay(rf); p != nil {
				sel = append(sel, p)
			}
		}
		if len(sel) == 0 {
			c.Rep.HarnessError("replay: case " + c.Only + " not found in the stream of this seed/tier and not stored in the replay file")
			return nil
		}
		progs = sel
	}
	sc, err := work.New()
	if err != nil {
		c.Rep.HarnessError(err.Error())
		return nil
	}
	defer sc.Cleanup()
	spec.Opts.Log = func(s string) { logf("%s", s) }
	pl, err := e1.New(sc, spec.Opts)
	if err != nil {
		c.Rep.HarnessError(err.Error())
		return nil
	}
	outs, err := pl.Run(progs)
	if err != nil {
		c.Rep.HarnessError(err.Error())
		return nil
	}
	kinds := kindSet(spec.Kinds)
	feat := map[string]int{}
	var events, runs, paths, maxTrace, budgetRuns, compared, uncompiled, panicRuns int
	var notAccepted, dropped []string
	for _, o := range outs {
		p := o.Prog
		if o.Run == nil || o.Run.Runs == 0 {
			c.Rep.Eval(1) // never ran (not accepted / precondition): one evaluation, the compilation attempt
		} else {
			c.Rep.Eval(o.Run.Runs) // executions compared: tape paths x consumer histories
		}
		c.Rep.Count("programs", 1)
		if (o.SrcErr != "" || o.RefErr != "") && p.Optional {
			c.Rep.Count("derived_variants_dropped_by_precondition", 1)
			dropped = append(dropped, p.Name+": "+firstLine(o.SrcErr+o.RefErr))
			continue
		}
		if o.SrcErr != "" || o.RefErr != "" {
			c.Rep.HarnessError(fmt.Sprintf("precondition failed for %s (generator/renderer bug, no verdict):\n%s\n%s\n--- source\n%s", p.Name, o.SrcErr, o.RefErr, o.CoSource))
			continue
		}
		if spec.Judge != nil {
			if spec.Judge(c, o) {
				continue
			}
		}
		rd := func(d *e1.Diff) replayDoc {
			return replayDoc{Engine: "e1", Program: p, Stage1: spec.Opts.Stage1, Diff: d, CoSrc: o.CoSource, RefSrc: o.RefSource, Output: o.OutText}
		}
		if o.CompilePanic != "" || o.BuildErr != "" || o.S1BuildErr != "" {
			uncompiled++
			c.Rep.Count("programs_not_accepted_by_compiler", 1)
			notAccepted = append(notAccepted, p.Name+": "+firstLine(o.CompilePanic)+buildSig(o.BuildErr+o.S1BuildErr))
			if spec.AcceptanceViolations || os.Getenv("COVERIF_ACCEPT") != "" {
				what, sig := "", ""
				switch {
				case o.CompilePanic != "":
					sig = "compiler-panic:" + firstLine(o.CompilePanic)
					what = fmt.Sprintf("compiler panicked on a supported program (%s, import style %s):\n%s\n--- source\n%s", p.Name, p.Style, o.CompilePanic, o.CoSource)
				case o.BuildErr != "":
					sig = "output-does-not-build:" + buildSig(o.BuildErr)
					what = fmt.Sprintf("generated code does not build (%s, import style %s):\n%s\n--- source\n%s", p.Name, p.Style, trimTo(o.BuildErr, 1500), o.CoSource)
				default:
					sig = "stage1-does-not-build:" + buildSig(o.S1BuildErr)
					what = fmt.Sprintf("stage-1 code does not build (%s):\n%s\n--- source\n%s", p.Name, trimTo(o.S1BuildErr, 1500), o.CoSource)
				}
				c.Rep.Violate(verdict.Violation{Case: p.Name, Sig: sig, What: what, Replay: rd(nil)})
			}
			continue
		}
		if o.Hung != "" {
			c.Rep.Inconclusive(fmt.Sprintf("%s: no progress (%s); not judged", p.Name, o.Hung))
			c.Rep.Count("programs_hung_inconclusive", 1)
			continue
		}
		if o.Crashed != "" {
			c.Rep.Violate(verdict.Violation{Case: p.Name, Sig: "CRASH", What: fmt.Sprintf("the run driver process died while running %s: %s\n--- source\n%s", p.Name, o.Crashed, o.CoSource), Replay: rd(nil)})
			continue
		}
		if o.Run == nil {
			c.Rep.HarnessError("no run summary for " + p.Name)
			continue
		}
		for _, h := range o.Run.RefPanics {
			c.Rep.HarnessError(fmt.Sprintf("%s: %s\n--- reference\n%s", p.Name, h, o.RefSource))
		}
		compared++
		events += o.Run.Events
		runs += o.Run.Runs
		paths += o.Run.Paths
		budgetRuns += o.Run.BudgetRuns
		panicRuns += o.Run.PanicRuns
		if o.Run.MaxTrace > maxTrace {
			maxTrace = o.Run.MaxTrace
		}
		for _, f := range p.Features {
			feat[f]++
		}
		if spec.NonTrivial == nil || spec.NonTrivial(o) {
			for _, t := range o.Run.Tapes {
				c.Rep.Distinct(p.ShapeHash() + "/" + t)
			}
		}
		for i := range o.Run.Diffs {
			d := &o.Run.Diffs[i]
			if !kinds[d.Kind] {
				c.Rep.Count("other_property_divergences_seen_"+d.Kind, 1)
				continue
			}
			names := map[string][2]string{
				"CR-full":   {"reference", "compiled"},
				"CR-values": {"reference", "compiled"},
				"SC-full":   {"stage-1 (unoptimised)", "optimised"},
				"NC-full":   {"source built natively", "generated"},
				"NC-values": {"source built natively", "generated"},
				"STUB":      {"expected", "compiled"},
				"POSTSTOP":  {"expected", "compiled"},
			}[d.Kind]
			what := fmt.Sprintf("%s: %s divergence at event %d under tape %q, history K=%d (%d diverging runs)\n %s: %s\n %s: %s\n --- %s trace window\n %s\n --- %s trace window\n %s\n--- source\n%s",
				p.Name, d.Kind, d.At, d.Tape, d.K, d.Count, names[0], d.WantA, names[1], d.GotB,
				names[0], strings.Join(d.A, " "), names[1], strings.Join(d.B, " "), o.CoSource)
			c.Rep.Violate(verdict.Violation{Case: p.Name, Sig: d.Kind + ":" + d.WantA + "/" + d.GotB, What: what, Replay: rd(d)})
		}
		if len(o.Run.Sample) > 0 && (spec.NonTrivial == nil || spec.NonTrivial(o)) {
			c.Rep.Sample(map[string]any{"program": p.Name, "features": p.Features, "go_co_source": o.CoSource, "tape": o.Run.SampleTape, "trace": strings.Join(o.Run.Sample, " "), "paths_explored": o.Run.Paths})
		}
	}
	if len(notAccepted) > 0 {
		if len(notAccepted) > 30 {
			notAccepted = notAccepted[:30]
		}
		c.Rep.Set("not_accepted_list", notAccepted)
	}
	if len(dropped) > 0 {
		if len(dropped) > 30 {
			dropped = dropped[:30]
		}
		c.Rep.Set("derived_variants_dropped_list", dropped)
	}
	c.Rep.Count("programs_compared", compared)
	c.Rep.Count("events_observed", events)
	c.Rep.Count("executions", runs)
	c.Rep.Count("tape_paths", paths)
	c.Rep.Count("budget_cut_runs_inconclusive", budgetRuns)
	c.Rep.Count("runs_with_panic", panicRuns)
	c.Rep.Set("longest_trace", maxTrace)
	keys := make([]string, 0, len(feat))
	for k := range feat {
		keys = append(keys, k)
	}
	sort.Strings(keys)
	fh := map[string]int{}
	for _, k := range keys {
		fh[k] = feat[k]
	}
	c.Rep.Set("feature_histogram", fh)
	for k, v := range pl.Stats {
		c.Rep.Count(k, v)
	}
	c.Rep.RequireDistinct(spec.MinDistinct)
	return outs
}

func programFromReplay(path string) *e1.Program {
	bs, err := os.ReadFile(path)
	if err != nil {
		return nil
	}
	var doc struct {
		Replay replayDoc `json:"replay"`
	}
	if json.Unmarshal(bs, &doc) != nil || doc.Replay.Program == nil {
		return nil
	}
	return doc.Replay.Program
}

func firstLine(s string) string {
	if i := strings.IndexByte(s, '\n'); i >= 0 {
		s = s[:i]
	}
	if i := strings.Index(s, " in: "); i >= 0 {
		s = s[:i]
	}
	return trimTo(s, 120)
}

// buildSig extracts the first compiler diagnostic without positions.
func buildSig(s string) string {
	for _, l := range strings.Split(s, "\n") {
		if strings.HasPrefix(l, "#") || strings.TrimSpace(l) == "" {
			continue
		}
		if i := strings.Index(l, ".go:"); i >= 0 {
			rest := l[i+4:]
			parts := strings.SplitN(rest, ": ", 2)
			if len(parts) == 2 {
				msg := parts[1]
				if j := strings.Index(msg, " (/"); j >= 0 { // positions inside the scratch directory are not part of the signature
					msg = msg[:j]
				}
				return trimTo(msg, 100)
			}
		}
		return trimTo(l, 100)
	}
	return "?"
}

func trimTo(s string, n int) string {
	if len(s) > n {
		return s[:n] + "…"
	}
	return s
}
