package engine

import (
	"time"

	"covr/internal/work"
)

// C10 — built-in range iterators vs native range (engine E3).
func C10(c *Ctx) {
	sc, err := work.New()
	if err != nil {
		c.Rep.HarnessError(err.Error())
		return
	}
	defer sc.Cleanup()
	pr := RunProbe(c, sc, "itermodel", nil, nil, nil, 30*time.Minute, "itermodel")
	if pr != nil {
		c.Rep.Exhaustive = pr.Exhaustive
	}
	c.Rep.Assumptions = append(c.Rep.Assumptions,
		"the Go toolchain's native range statement is the oracle",
		"iterators are driven with the protocol the compiler emits (MoveNext; Current().Key / Current().Val)",
		"map order is random: maps are checked by multiset equality and per-visit invariants, not by sequence")
	c.Rep.RequireDistinct(1000)
}
