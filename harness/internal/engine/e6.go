package engine

import (
	"bytes"
	"crypto/sha256"
	"encoding/hex"
	"fmt"
	"go/ast"
	"go/parser"
	"go/token"
	"os"
	"path/filepath"
	"regexp"
	"sort"
	"strings"
	"sync"
	"time"

	"covr/internal/cases"
	"covr/internal/e1"
	"covr/internal/genr"
	"covr/internal/render"
	"covr/internal/verdict"
	"covr/internal/work"
)

// srcFile is one go-co source file of the determinism workload.
type srcFile struct {
	pkg  string // package (directory) name
	name string // file name
	text string
}

// e6Sources builds the workload: files made of generated programs (sequential and
// nested range loops, all statement kinds, 5 import styles) + the repo's own corpus.
func e6Sources(c *Ctx, nfiles int) []srcFile {
	var files []srcFile
	var progs []*e1.Program
	rg, _ := genr.Range(c.Seed, 60, c.Rep.QuarantinedFeatures())
	progs = append(progs, rg...)
	progs = append(progs, genr.Scope(40, c.Seed)...)
	progs = append(progs, genr.Random(genr.Ctl, 60, c.Seed, c.Rep.QuarantinedFeatures())...)
	progs = append(progs, cases.Scope()...)
	progs = append(progs, cases.Fx()...)
	// the directed control-flow / acceptance / delegation / optimiser shapes (what one file gets must not depend on
	// how many files the optimiser visited before it)
	for _, p := range append(append(append(cases.Ctl(), cases.Accept()...), cases.Deleg()...), cases.OptGen()...) {
		if len(p.Imports) == 0 && !p.Isolate {
			progs = append(progs, p)
		}
	}
	for _, p := range cases.Range() {
		quarantined := false
		for _, f := range p.Features {
			if c.Rep.QuarantinedFeatures()[f] {
				quarantined = true
			}
		}
		if !quarantined {
			progs = append(progs, p)
		}
	}
	// every third program in another generator form (function literals get source comments outside go test)
	for i, p := range progs {
		if i%3 == 0 {
			if w := genr.WithForm(p, 1+(i/3)%(genr.NForms-1)); w != nil {
				progs[i] = w
			}
		}
	}
	progs = append(progs, cases.Nest()...)
	per := (len(progs) + nfiles - 1) / nfiles
	for i := 0; i < nfiles; i++ {
		st := render.Style(i % int(render.NStyles))
		var body strings.Builder
		imps := map[string]bool{}
		_ = per
		for j := i; j < len(progs); j += nfiles { // round robin: no file stays empty
			progs[j].ID = j
			if len(progs[j].Files) > 0 {
				continue // programs that need extra data files are not part of this workload
			}
			for _, im := range progs[j].Imports {
				imps[im] = true
			}
			body.WriteString(render.Co(progs[j].Neutral, progs[j].Prefix(), st))
			body.WriteString("\n")
		}
		var ib strings.Builder
		var names []string
		for im := range imps {
			names = append(names, im)
		}
		sort.Strings(names)
		for _, im := range names {
			if strings.HasPrefix(im, "_") {
				fmt.Fprintf(&ib, "\t_ %q\n", im[1:])
			} else {
				fmt.Fprintf(&ib, "\t%q\n", im)
			}
		}
		var b strings.Builder
		fmt.Fprintf(&b, "package p\n\nimport (\n%s%s\t\"scratch/drv\"\n\t\"scratch/tr\"\n)\n\nvar _ = tr.E\nvar _ = drv.Cleanup\n%s\n", ib.String(), st.ImportBlock(), st.ExtraDecls(fmt.Sprint(i)))
		b.WriteString(body.String())
		files = append(files, srcFile{pkg: "p", name: fmt.Sprintf("f%02d.go", i), text: b.String()})
	}
	files = append(files, srcFile{pkg: "p", name: "shared.go", text: e6SharedPlain})
	files = append(files, srcFile{pkg: "p", name: "uses_shared.go", text: e6UsesShared})
	// a file with a blank import of the user (its bytes must not depend on test files sitting next to it)
	files = append(files, srcFile{pkg: "p", name: "blank_import.go", text: "package p\n\nimport (\n\t_ \"image/gif\"\n\n\t. \"github.com/goghcrow/go-co\"\n)\n\n// Frames yields 1, 2.\nfunc Frames() Iter[int] {\n\tfor i := 1; i < 3; i++ {\n\t\tYield(i)\n\t}\n\treturn nil\n}\n"})
	// files that use the API but declare NO generator (they only consume iterators), sorting before and after
	// all other files of the package: what the tool keeps per file must not leak from the files visited before
	for _, pre := range []string{"aa", "zz"} {
		files = append(files, srcFile{pkg: "p", name: pre + "_consumer_only.go", text: strings.ReplaceAll(e6ConsumerOnly, "§", strings.ToUpper(pre))})
	}
	// the repository's own corpus (realistic sources)
	gold := filepath.Join(work.Repo(), "rewriter", "test", "src")
	ents, _ := os.ReadDir(gold)
	for _, e := range ents {
		if strings.HasSuffix(e.Name(), ".go") {
			bs, err := os.ReadFile(filepath.Join(gold, e.Name()))
			if err == nil {
				files = append(files, srcFile{pkg: "src", name: e.Name(), text: string(bs)})
			}
		}
	}
	return files
}

const e6ConsumerOnly = `// Package p: a file that only CONSUMES iterators.
package p

import . "github.com/goghcrow/go-co"

// §Sum drains an iterator.
func §Sum(it Iter[int]) (n int) {
	for v := range it {
		n += v
	}
	return
}

// §Holder keeps an iterator in a field.
type §Holder struct{ It Iter[string] }

// Len pulls by hand.
func (h §Holder) Len() (n int) {
	for h.It.MoveNext() {
		n += len(h.It.Current())
	}
	return
}
`

// declarations in a file the compiler does not process (it does not use the API) ...
const e6SharedPlain = "package p\n\n// package-level state declared in a file the compiler does not process\nvar SharedG int\n\nconst SharedC = 7\n\nconst SharedS = \"s\"\n\ntype SharedKind int\n\nconst SharedK SharedKind = 3\n\nfunc SharedCond() bool { return SharedG > 0 }\n"

// ... and the same declarations in a file that uses the API itself (so it IS processed in the same invocation)
const e6SharedWithGenerator = "package p\n\nimport . \"github.com/goghcrow/go-co\"\n\nvar SharedG int\n\nconst SharedC = 7\n\nconst SharedS = \"s\"\n\ntype SharedKind int\n\nconst SharedK SharedKind = 3\n\nfunc SharedCond() bool { return SharedG > 0 }\n\nfunc SharedGen() Iter[int] {\n\tYield(SharedC)\n\treturn nil\n}\n"

// generators whose yields are bare identifiers declared in shared.go, each the only statement of its thunk
const e6UsesShared = `package p

import (
	. "github.com/goghcrow/go-co"
	"github.com/goghcrow/go-co/seq"
)

// hand-written seq code whose combinator arguments are identifiers declared in shared.go
var UserSeq = seq.Delay(func() seq.Seq[int] {
	return seq.While(SharedCond, seq.Delay(func() seq.Seq[int] { return seq.Bind(SharedC, seq.Normal[int]) }))
})

func UsesSharedConst(n int) Iter[int] {
	for i := 0; i < n; i++ {
		Yield(SharedC)
	}
	for range n {
		Yield(SharedG)
	}
	for i := 0; i < n; i++ {
		Yield(-SharedC)
	}
	if n > 3 {
		Yield(SharedC)
	} else {
		Yield(SharedG)
	}
	return nil
}

func UsesSharedKind(n int) Iter[SharedKind] {
	for i := 0; i < n; i++ {
		Yield(SharedK)
	}
	return nil
}

var usesSharedLit = func() Iter[string] {
	for range 2 {
		Yield(SharedS)
	}
	return nil
}
`

type e6Config struct {
	// failFirst: a FIRST compile into the same dst of the same tree plus a file the compiler rejects
	// (the compiler panics half-way); that file and dropFile are then removed before the real run
	failFirst string
	dropFile  string
	partial   bool // only a subset of the files is compiled: outputs of the others are not expected
	name      string
	root      string            // absolute root of the tree
	files     []srcFile         // files to write (rel = pkg/name)
	extra     map[string]string // additional files: rel path -> text
	prefill   map[string]string // files written into dst / dst_tmp before the run
	first     []srcFile         // a different tree compiled FIRST in the same process
	env       []string
}

// subsetOf keeps the files for which keep says so (i counts the generated f-files only)
func subsetOf(files []srcFile, keep func(i int, f srcFile) bool) (out []srcFile) {
	i := 0
	for _, f := range files {
		if keep(i, f) {
			out = append(out, f)
		}
		if strings.HasPrefix(f.name, "f") {
			i++
		}
	}
	return
}

var helperDef = regexp.MustCompile(`^ɪʇ\d+$`)

// helperClash reports generated helper identifiers (with counter) defined twice in a file.
func helperClash(path string, src []byte) []string {
	fset := token.NewFileSet()
	f, err := parser.ParseFile(fset, path, src, 0)
	if err != nil {
		return []string{"output does not parse: " + err.Error()}
	}
	seen := map[string]int{}
	ast.Inspect(f, func(n ast.Node) bool {
		as, ok := n.(*ast.AssignStmt)
		if !ok || as.Tok != token.DEFINE {
			return true
		}
		for _, l := range as.Lhs {
			if id, ok := l.(*ast.Ident); ok && helperDef.MatchString(id.Name) {
				seen[id.Name]++
			}
		}
		return true
	})
	var out []string
	for k, v := range seen {
		if v > 1 {
			out = append(out, fmt.Sprintf("%s defined %d times", k, v))
		}
	}
	sort.Strings(out)
	return out
}

// C15 — generated output is deterministic and independent of unrelated inputs (engine E6).
func C15(c *Ctx) {
	sc, err := work.New()
	if err != nil {
		c.Rep.HarnessError(err.Error())
		return
	}
	defer sc.Cleanup()
	if err := sc.CopyProbe("tr", "drv", "ccdrv"); err != nil {
		c.Rep.HarnessError(err.Error())
		return
	}
	ccdrv, br := sc.Build("ccdrv", "./ccdrv", "-tags", "verif")
	if br.Code != 0 {
		c.Rep.HarnessError("build of compile driver failed:\n" + string(br.Out))
		return
	}
	nfiles, repeats := 6, 2
	if c.Thorough() {
		nfiles, repeats = 30, 6
	}
	files := e6Sources(c, nfiles)
	other := []srcFile{}
	for i, f := range files {
		if f.pkg != "p" {
			continue
		}
		if i < nfiles {
			// same file names, different content: what an EARLIER run of other sources would have left behind
			other = append(other, srcFile{pkg: "p", name: f.name, text: files[(i+1)%nfiles].text})
		} else {
			other = append(other, f)
		}
	}
	extraBefore := "package p\n\nimport . \"github.com/goghcrow/go-co\"\n\nfunc AAextra() Iter[int] {\n\tfor i, r := range \"xy\" {\n\t\tYield(i + int(r))\n\t}\n\tfor range 2 {\n\t\tYield(0)\n\t}\n\treturn nil\n}\n"
	extraAfter := strings.Replace(extraBefore, "AAextra", "ZZextra", 1)
	otherPkg := "package q\n\nimport . \"github.com/goghcrow/go-co\"\n\nfunc Q() Iter[string] {\n\tfor _, s := range []string{\"a\", \"b\"} {\n\t\tYield(s)\n\t}\n\treturn nil\n}\n"
	deep := filepath.Join(sc.Dir, "a-much-longer", "and", "different", "absolute", "root", "path")
	var cfgs []e6Config
	for r := 0; r < repeats; r++ {
		cfgs = append(cfgs, e6Config{name: fmt.Sprintf("alone-run%d", r), files: files, env: []string{fmt.Sprintf("GOMAXPROCS=%d", []int{1, 4, 16}[r%3])}})
	}
	cfgs = append(cfgs,
		e6Config{name: "among-extra-files-before-and-after", files: files, extra: map[string]string{"p/aa_extra.go": extraBefore, "p/zz_extra.go": extraAfter}},
		e6Config{name: "among-other-packages", files: files, extra: map[string]string{"a0pkg/q.go": strings.Replace(otherPkg, "package q", "package a0pkg", 1), "p/sub/q.go": strings.Replace(otherPkg, "package q", "package sub", 1), "zzpkg/q.go": strings.Replace(otherPkg, "package q", "package zzpkg", 1)}},
		e6Config{name: "second-compile-in-same-process", files: files, first: append([]srcFile{{pkg: "w", name: "w.go", text: strings.Replace(extraBefore, "package p", "package w", 1)}}, other...)},
		e6Config{name: "dst-and-dst_tmp-prepopulated", files: files, prefill: map[string]string{}},
		e6Config{name: "different-absolute-root", files: files, root: deep},
		// an unrelated in-package test file and an external test package: the package is loaded a second time as its test variant
		e6Config{name: "with-unrelated-test-files-in-the-package", files: files, extra: map[string]string{
			"p/unrelated_test.go": "package p\n\nimport \"testing\"\n\nfunc TestUnrelated(t *testing.T) { _ = SharedG }\n",
			"p/external_test.go":  "package p_test\n\nimport \"testing\"\n\nfunc TestExternal(t *testing.T) {}\n",
			// ... and an in-package test file that uses the API itself (it is processed, so the optimise stage sees the test variant too)
			"p/uses_api_test.go": "package p\n\nimport (\n\t\"testing\"\n\n\t. \"github.com/goghcrow/go-co\"\n)\n\nfunc testOnlyGen() Iter[int] {\n\tYield(1)\n\treturn nil\n}\n\nfunc TestUsesAPI(t *testing.T) {\n\tfor v := range testOnlyGen() {\n\t\t_ = v\n\t}\n}\n"}},
		// the file that declares the shared constants / variables is processed in the same invocation (it uses the API itself)
		e6Config{name: "declaring-file-is-processed-too", files: files, extra: map[string]string{"p/shared.go": e6SharedWithGenerator}},
		// subsets: the files are visited at other POSITIONS of the invocation (first instead of k-th)
		e6Config{name: "after-a-rejected-run-into-the-same-dst", files: files, dropFile: "p/f00.go",
			failFirst: "package p\n\nimport . \"github.com/goghcrow/go-co\"\n\nfunc ZZRejected() Iter[int] {\n\tn := 0\nagain:\n\tn++\n\tYield(n)\n\tif n < 2 {\n\t\tgoto again\n\t}\n\treturn nil\n}\n"},
	)
	// every generated file ALONE with the plain helper files (it is then the first file the tool visits, not the k-th)
	nf := 0
	for _, f := range files {
		if strings.HasPrefix(f.name, "f") && f.pkg == "p" {
			nf++
		}
	}
	for k := 0; k < nf; k++ {
		k := k
		cfgs = append(cfgs, e6Config{name: fmt.Sprintf("file-f%02d-without-the-other-generated-files", k), partial: true,
			files: subsetOf(files, func(i int, f srcFile) bool {
				if f.pkg != "p" {
					return false
				}
				if strings.HasPrefix(f.name, "f") {
					return i == k
				}
				return f.name != "aa_consumer_only.go"
			})})
	}
	// prefill: outputs of a different earlier run (computed below from the "other" tree) are placed into dst and dst_tmp

	type result struct {
		cfg   string
		files map[string][]byte // rel path -> generated bytes
		err   string
	}
	runCfg := func(cfg e6Config, idx int) result {
		root := cfg.root
		if root == "" {
			root = filepath.Join(sc.Dir, fmt.Sprintf("cfg%02d", idx))
		}
		// every tree must live inside the scratch module so that imports resolve
		src, dst := filepath.Join(root, "src"), filepath.Join(root, "out")
		write := func(base string, fs []srcFile) {
			for _, f := range fs {
				p := filepath.Join(base, f.pkg, f.name)
				os.MkdirAll(filepath.Dir(p), 0o755)
				os.WriteFile(p, []byte(f.text), 0o644)
			}
		}
		write(src, cfg.files)
		for rel, text := range cfg.extra {
			p := filepath.Join(src, rel)
			os.MkdirAll(filepath.Dir(p), 0o755)
			os.WriteFile(p, []byte(text), 0o644)
		}
		for rel, text := range cfg.prefill {
			p := filepath.Join(root, rel)
			os.MkdirAll(filepath.Dir(p), 0o755)
			os.WriteFile(p, []byte(text), 0o644)
		}
		if cfg.failFirst != "" {
			bad := filepath.Join(src, "p", "zz_rejected.go")
			os.WriteFile(bad, []byte(cfg.failFirst), 0o644)
			r0 := work.Run(work.Cmd{Dir: sc.Dir, Env: work.Env(cfg.env...), Argv: []string{ccdrv, "compile", src + ":" + dst}, Timeout: 15 * time.Minute})
			if !strings.Contains(string(r0.Out), "PANIC:") {
				return result{cfg: cfg.name, err: "the first run was expected to be rejected by the compiler:\n" + tail(string(r0.Out), 1500)}
			}
			os.Remove(bad)
			os.Remove(filepath.Join(src, cfg.dropFile))
		}
		argv := []string{ccdrv, "compile"}
		if cfg.first != nil {
			fsrc, fdst := filepath.Join(root, "first", "src"), filepath.Join(root, "first", "out")
			write(fsrc, cfg.first)
			argv = append(argv, fsrc+":"+fdst)
		}
		argv = append(argv, src+":"+dst)
		r := work.Run(work.Cmd{Dir: sc.Dir, Env: work.Env(cfg.env...), Argv: argv, Timeout: 15 * time.Minute})
		res := result{cfg: cfg.name, files: map[string][]byte{}}
		if r.TimedOut || !strings.Contains(string(r.Out), "OK:"+src) {
			res.err = "compile failed:\n" + tail(string(r.Out), 2000)
			return res
		}
		for _, f := range cfg.files {
			bs, err := os.ReadFile(filepath.Join(dst, f.pkg, f.name))
			if cfg.dropFile == f.pkg+"/"+f.name {
				if err == nil {
					res.err = "stale: an output was generated for " + cfg.dropFile + ", a source file that was deleted after an earlier, rejected run"
				}
				continue
			}
			if err != nil {
				if strings.Contains(f.text, "go-co") {
					res.err = "missing output " + f.pkg + "/" + f.name
				}
				continue
			}
			res.files[f.pkg+"/"+f.name] = bs
		}
		// no temporary directory (<dst>_tmp or <dst>_tmp<random>) is left behind, and one that existed before is still there
		tmps, _ := filepath.Glob(dst + "_tmp*")
		_, hadTmp := cfg.prefill["out_tmp/p/zz_only_in_tmp.go"]
		for _, t := range tmps {
			if t == dst+"_tmp" && hadTmp {
				continue
			}
			res.err = "temporary directory " + t + " left behind"
		}
		if hadTmp {
			if _, err := os.Stat(filepath.Join(dst+"_tmp", "p", "zz_only_in_tmp.go")); err != nil {
				res.err = "foreign: the directory " + dst + "_tmp that existed before the run (not created by it) was removed or emptied"
			}
		}
		// every file of dst is the output of a source file of THIS run or was in dst before the run
		have := map[string]bool{}
		for _, f := range cfg.files {
			have[f.pkg+"/"+f.name] = true
		}
		for rel := range cfg.extra {
			have[rel] = true
		}
		filepath.WalkDir(dst, func(p string, d os.DirEntry, err error) error {
			if err != nil || d.IsDir() {
				return nil
			}
			rel, _ := filepath.Rel(dst, p)
			if _, pre := cfg.prefill["out/"+rel]; pre || have[rel] {
				return nil
			}
			if res.err == "" {
				res.err = "foreign: " + rel + " was written into dst although no source file of this run corresponds to it"
			}
			return nil
		})
		return res
	}

	// the earlier run whose outputs pollute dst / dst_tmp
	pre := runCfg(e6Config{name: "earlier-run-of-other-sources", files: other}, 90)
	if pre.err != "" {
		c.Rep.HarnessError("prefill run: " + pre.err)
		return
	}
	for i := range cfgs {
		if cfgs[i].prefill != nil {
			for rel, bs := range pre.files {
				cfgs[i].prefill["out/"+rel] = string(bs)
				cfgs[i].prefill["out_tmp/"+rel] = string(bs)
			}
			cfgs[i].prefill["out/p/stale_leftover.go"] = "package p\n"
			// a file in <dst>_tmp that no source of this run overwrites (left by an earlier run, or the user's own)
			cfgs[i].prefill["out_tmp/p/zz_only_in_tmp.go"] = "package p\n\nimport \"github.com/goghcrow/go-co/seq\"\n\nvar OnlyInTmp = seq.Normal[int]\n"
		}
	}
	results := make([]result, len(cfgs))
	var wg sync.WaitGroup
	sem := make(chan struct{}, 6)
	for i := range cfgs {
		wg.Add(1)
		go func(i int) {
			defer wg.Done()
			sem <- struct{}{}
			defer func() { <-sem }()
			results[i] = runCfg(cfgs[i], i)
		}(i)
	}
	wg.Wait()

	partialCfg := map[string]bool{}
	for _, cf := range cfgs {
		if cf.partial {
			partialCfg[cf.name] = true
		}
	}
	base := results[0]
	if base.err != "" {
		c.Rep.HarnessError("baseline configuration: " + base.err)
		return
	}
	sum := func(b []byte) string { h := sha256.Sum256(b); return hex.EncodeToString(h[:])[:16] }
	compared := 0
	for _, r := range results {
		c.Rep.Count("configurations_run", 1)
		if r.err != "" {
			if strings.Contains(r.err, "left behind") {
				c.Rep.Violate(verdict.Violation{Case: "cfg:" + r.cfg, Sig: "tmp-left-behind", What: r.err})
			} else if strings.HasPrefix(r.err, "foreign:") {
				c.Rep.Violate(verdict.Violation{Case: "cfg:" + r.cfg, Sig: "output-without-source", What: r.err})
			} else if strings.HasPrefix(r.err, "stale:") {
				c.Rep.Violate(verdict.Violation{Case: "cfg:" + r.cfg, Sig: "stale-output-after-rejected-run", What: r.err})
			} else {
				c.Rep.HarnessError(r.cfg + ": " + r.err)
			}
			continue
		}
		for rel, want := range base.files {
			if r.cfg == "after-a-rejected-run-into-the-same-dst" && rel == "p/f00.go" {
				continue
			}
			got, ok := r.files[rel]
			compared++
			c.Rep.Eval(1)
			c.Rep.Distinct(r.cfg + "/" + rel)
			if !ok && partialCfg[r.cfg] {
				continue
			}
			if !ok {
				c.Rep.Violate(verdict.Violation{Case: "cfg:" + r.cfg + ":" + rel, Sig: "output-missing", What: fmt.Sprintf("configuration %s: no output for %s", r.cfg, rel)})
				continue
			}
			if !bytes.Equal(want, got) {
				c.Rep.Violate(verdict.Violation{Case: "cfg:" + r.cfg + ":" + rel, Sig: "bytes-differ",
					What: fmt.Sprintf("generated file %s differs between configuration %s (sha %s) and %s (sha %s)\nfirst difference:\n%s", rel, results[0].cfg, sum(want), r.cfg, sum(got), firstByteDiff(want, got))})
			}
		}
	}
	// the generated packages of the baseline configuration build (helper identifiers do not clash)
	os.WriteFile(filepath.Join(sc.Dir, "cfg00", "out", "p", "shared.go"), []byte(e6SharedPlain), 0o644) // the plain file the compiler does not emit
	if br := sc.Go(20*time.Minute, nil, "build", "./cfg00/out/p"); br.Code != 0 {
		c.Rep.Violate(verdict.Violation{Case: "build:cfg00/out/p", Sig: "generated-package-does-not-build:" + buildSig(string(br.Out)), What: "the generated package of the baseline configuration does not build:\n" + trimTo(string(br.Out), 2000)})
	}
	// helper identifiers
	clashFiles := 0
	for rel, bs := range base.files {
		if cl := helperClash(rel, bs); len(cl) > 0 {
			clashFiles++
			c.Rep.Violate(verdict.Violation{Case: "helpers:" + rel, Sig: "helper-identifier-clash", What: fmt.Sprintf("%s: %v", rel, cl)})
		}
	}
	helpers := 0
	for _, bs := range base.files {
		helpers += len(regexp.MustCompile(`ɪʇ\d+ :=`).FindAll(bs, -1))
	}
	c.Rep.Count("files_compared", compared)
	c.Rep.Count("configurations", len(cfgs))
	c.Rep.Count("source_files", len(base.files))
	c.Rep.Count("generated_helper_definitions_checked", helpers)
	names := []string{}
	for _, cfg := range cfgs {
		names = append(names, cfg.name)
	}
	c.Rep.Sample(map[string]any{"configurations": names, "example_file": "p/f00.go", "sha256_prefix": sum(base.files["p/f00.go"])})
	c.Rep.Rule = "source files = generated programs (sequential and nested range loops, scope/ctl/fx shapes, 5 import styles) + the repository's own rewriter/test/src corpus; each compiled by the stand-alone driver as fresh processes in these configurations: alone (repeated, GOMAXPROCS 1/4/16), among extra co files sorting before and after it, among other packages and sub-directories, as the SECOND Compile call of a process, into dst and dst_tmp pre-populated with outputs of a different earlier run, under a different absolute root path, after an earlier run into the same dst that the compiler rejected half-way (a source file deleted in between must not get an output); oracle: bytes of every generated file identical to the first configuration, no temp dir left, the generated package builds, counter-suffixed helper identifiers unique per file. distinct = configuration x file."
	c.Rep.Assumptions = append(c.Rep.Assumptions, "process-level nondeterminism (map seeds, scheduler) is sampled by repeated fresh processes, not enumerated")
	c.Rep.RequireDistinct(40)
}

func firstByteDiff(a, b []byte) string {
	la, lb := strings.Split(string(a), "\n"), strings.Split(string(b), "\n")
	for i := 0; i < len(la) || i < len(lb); i++ {
		x, y := "<eof>", "<eof>"
		if i < len(la) {
			x = la[i]
		}
		if i < len(lb) {
			y = lb[i]
		}
		if x != y {
			return fmt.Sprintf("line %d:\n- %s\n+ %s", i+1, x, y)
		}
	}
	return "(no line difference)"
}
