package engine

import (
	"time"

	"covr/internal/work"
)

func seqModel(c *Ctx, mode string, minDistinct int, assumptions ...string) {
	sc, err := work.New()
	if err != nil {
		c.Rep.HarnessError(err.Error())
		return
	}
	defer sc.Cleanup()
	pr := RunProbe(c, sc, "seqmodel", nil, nil, []string{"-mode", mode}, 40*time.Minute, "seqmodel-"+mode)
	if pr != nil {
		c.Rep.Exhaustive = pr.Exhaustive
	}
	c.Rep.Assumptions = append(c.Rep.Assumptions, assumptions...)
	c.Rep.RequireDistinct(minDistinct)
}

// C08 — combinators vs reference interpreter (engine E2).
func C08(c *Ctx) {
	seqModel(c, "c08", 2000,
		"the ~60-line big-step reference interpreter in probes/seqmodel is the specification (written from the property text)",
		"only well-formed terms (Break/Continue under a loop) are generated; cond-less loops have a logging body so the event budget bounds every run",
		"loop conditions are counters allocated per loop entry (like a compiled `i := 0; for ...`)")
}

// C09 — iterator protocol vs 3-state model (engine E2).
func C09(c *Ctx) {
	seqModel(c, "c09", 2000,
		"the 3-state protocol model in probes/seqmodel is the specification (written from the property text)",
		"Result is compared only once the model is in state done; before that only its lack of side effects is checked")
}
