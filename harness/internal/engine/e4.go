package engine

import (
	"encoding/json"
	"fmt"
	"os"
	"path/filepath"
	"sort"
	"strings"
	"sync"
	"time"

	"covr/internal/genr"
	"covr/internal/verdict"
	"covr/internal/work"
)

// C17 — stack use does not grow with the number of iterations between yields (engine E4).
func C17(c *Ctx) {
	sc, err := work.New()
	if err != nil {
		c.Rep.HarnessError(err.Error())
		return
	}
	defer sc.Cleanup()
	if err := sc.CopyProbe("ccdrv", "stackmon"); err != nil {
		c.Rep.HarnessError(err.Error())
		return
	}
	ccdrv, br := sc.Build("ccdrv", "./ccdrv", "-tags", "verif")
	if br.Code != 0 {
		c.Rep.HarnessError("build of compile driver failed:\n" + string(br.Out))
		return
	}
	src := filepath.Join(sc.Dir, "stackmon", "src")
	out := filepath.Join(sc.Dir, "stackmon", "out")
	// PRNG loop nests, compiled together with the hand-written workload
	nAuto := 120
	if c.Thorough() {
		nAuto = 400
	}
	autoSrc, autoReg, autoNames := genr.StackPrograms(nAuto, c.Seed)
	if err := os.WriteFile(filepath.Join(src, "loops", "auto.go"), []byte(autoSrc), 0o644); err != nil {
		c.Rep.HarnessError(err.Error())
		return
	}
	if err := os.WriteFile(filepath.Join(sc.Dir, "stackmon", "auto_reg.go"), []byte(autoReg), 0o644); err != nil {
		c.Rep.HarnessError(err.Error())
		return
	}
	r := work.Run(work.Cmd{Dir: sc.Dir, Env: work.Env(), Argv: []string{ccdrv, "compile", src + ":" + out}, Timeout: 10 * time.Minute})
	if !strings.Contains(string(r.Out), "OK:") {
		c.Rep.HarnessError("compilation of the C17 workload failed:\n" + tail(string(r.Out), 3000))
		return
	}
	bin, br := sc.Build("stackmon", "./stackmon")
	if br.Code != 0 {
		c.Rep.HarnessError("build of stackmon failed:\n" + string(br.Out))
		return
	}
	n := 100000
	chain := 24
	if c.Thorough() {
		n = 1000000
		chain = 64
	}
	configs := []string{"ForPost", "ForCondProbe", "While", "Infinite", "Continue", "ContinueWhile", "RangeInt", "RangeSlice", "MapDeleteAhead", "MapClearAhead", "ChanManySkipped", "StringLong", "Switch", "Nested", "Filter",
		"NestedCondInner", "NestedEndlessInner", "ThreeLevels", "FlatMap", "ManualPull", "RangeOtherInBody",
		"rawFor", "rawWhileContinue", "rawLoopBreak", "rawCombineInLoop", "rawSharedInner", "rawRecvThenStretch", "rawRecvInWhileCombine"}
	// configurations that also exist in the variant "yield at the first iteration as well": the long
	// non-yielding stretch then comes AFTER a yield of the same loop run
	withFirst := map[string]bool{"ForPost": true, "ForCondProbe": true, "While": true, "Infinite": true, "Continue": true, "ContinueWhile": true, "RangeInt": true,
		"RangeSlice": true, "MapDeleteAhead": true, "MapClearAhead": true, "ChanManySkipped": true, "StringLong": true, "Switch": true, "Nested": true, "Filter": true, "NestedCondInner": true, "NestedEndlessInner": true, "ThreeLevels": true, "rawSharedInner": true, "FlatMap": true, "ManualPull": true, "RangeOtherInBody": true}
	type result struct {
		Config string         `json:"config"`
		N      int            `json:"n"`
		Yields int            `json:"yields"`
		Depths map[string]int `json:"depths"`
		Chain  map[string]int `json:"chain_depths"`
	}
	const maxGrowth = 16
	const maxGrowthNest = 96
	var mu sync.Mutex
	var wg sync.WaitGroup
	sem := make(chan struct{}, 8)
	samples := map[string]any{}
	run := func(cfg string, n int, first bool) {
		defer wg.Done()
		sem <- struct{}{}
		defer func() { <-sem }()
		id := "stack:" + cfg
		argv := []string{bin, "-config", cfg, "-n", fmt.Sprint(n)}
		wantYields := 1
		if cfg == "rawRecvThenStretch" || cfg == "rawRecvInWhileCombine" {
			wantYields = 2 // the receiving yield of the first iteration and the final one
		}
		if first {
			id += ":yield-first-too"
			argv = append(argv, "-first")
			wantYields = 2
		}
		if c.Only != "" && c.Only != id {
			return
		}
		r := work.Run(work.Cmd{Dir: sc.Dir, Env: work.Env(), Argv: argv, Timeout: 15 * time.Minute})
		mu.Lock()
		defer mu.Unlock()
		c.Rep.Count("configurations_run", 1)
		cfgKey := strings.TrimPrefix(id, "stack:")
		outS := string(r.Out)
		i := strings.LastIndex(outS, "RESULT:")
		if r.TimedOut {
			c.Rep.Inconclusive(id + ": watchdog fired")
			return
		}
		if i < 0 {
			if strings.Contains(outS, "stack overflow") || strings.Contains(outS, "goroutine stack exceeds") {
				c.Rep.Violate(verdict.Violation{Case: id, Sig: "stack-overflow", What: fmt.Sprintf("%s with n=%d iterations between yields died with a fatal stack overflow:\n%s", cfg, n, firstLines(outS, 6)), Replay: map[string]any{"only": id}})
				return
			}
			c.Rep.HarnessError(id + ": no result:\n" + tail(outS, 2000))
			return
		}
		var res result
		if err := json.Unmarshal([]byte(strings.TrimSpace(outS[i+7:])), &res); err != nil {
			c.Rep.HarnessError(id + ": bad result: " + err.Error())
			return
		}
		if cfg == "Chain" {
			// linear bound: depth(d+1)-depth(d) <= depth(2)-depth(1) + 4
			step := res.Chain["2"] - res.Chain["1"]
			worst := 0
			for d := 2; d < n; d++ {
				inc := res.Chain[fmt.Sprint(d+1)] - res.Chain[fmt.Sprint(d)]
				if inc > worst {
					worst = inc
				}
			}
			c.Rep.Count("depth_samples", len(res.Chain))
			c.Rep.Eval(len(res.Chain))
			for d := range res.Chain {
				c.Rep.Distinct("chain/" + d)
			}
			samples[cfg] = map[string]any{"frames_per_delegation_level": step, "max_increment": worst, "depth_at_1": res.Chain["1"], fmt.Sprintf("depth_at_%d", n): res.Chain[fmt.Sprint(n)]}
			if worst > step+4 || step <= 0 {
				c.Rep.Violate(verdict.Violation{Case: id, Sig: "superlinear-delegation-depth", What: fmt.Sprintf("delegation chain: depth increment per level grows: first %d, worst %d frames (depths %v)", step, worst, res.Chain), Replay: map[string]any{"only": id}})
			}
			return
		}
		if cfg == "MapDeleteAhead" || cfg == "MapClearAhead" {
			wantYields = res.Yields // how many entries survive depends on the map order; only stack use is judged
		}
		if res.Yields != wantYields {
			c.Rep.HarnessError(fmt.Sprintf("%s: expected exactly %d yields, got %d", id, wantYields, res.Yields))
			return
		}
		if cfg == "MapDeleteAhead" || cfg == "MapClearAhead" {
			// the iterator passes over ~n removed entries inside ONE advance, where no probe can sit:
			// judged by the stack limit of the child process alone (it survived)
			c.Rep.Eval(1)
			c.Rep.Distinct(cfgKey + "/survived-stack-limit")
			samples[cfgKey] = fmt.Sprintf("survived with a 1 MiB stack limit, %d entries passed over inside one advance", n)
			return
		}
		base, ok := res.Depths["10"]
		if !ok {
			c.Rep.HarnessError(id + ": no depth sample at iteration 10")
			return
		}
		idxs := []int{}
		for k := range res.Depths {
			var v int
			fmt.Sscan(k, &v)
			idxs = append(idxs, v)
		}
		sort.Ints(idxs)
		// PRNG loop nests (up to 6 levels): the depth legitimately differs with the position inside the nest (a few
		// frames per level), so growth is judged between iteration 1000 and the later samples with a bound that
		// covers every position of the nest; any per-iteration (or per-outer-iteration) growth exceeds it by orders
		// of magnitude at n = 10^5
		bound, from := maxGrowth, 10
		if strings.HasPrefix(cfg, "Auto") {
			bound, from = maxGrowthNest, 1000
			b2, ok2 := res.Depths["1000"]
			if !ok2 {
				c.Rep.HarnessError(id + ": no depth sample at iteration 1000")
				return
			}
			base = b2
		}
		worst, worstAt := 0, 0
		line := []string{}
		for _, ix := range idxs {
			d := res.Depths[fmt.Sprint(ix)]
			line = append(line, fmt.Sprintf("%d:%d", ix, d))
			if ix >= from && d-base > worst {
				worst, worstAt = d-base, ix
			}
			c.Rep.Distinct(fmt.Sprintf("%s/%d", cfgKey, ix))
		}
		c.Rep.Count("depth_samples", len(idxs))
		c.Rep.Eval(len(idxs))
		samples[cfgKey] = strings.Join(line, " ")
		if len(idxs) < 4 {
			c.Rep.Inconclusive(id + ": too few depth samples")
		}
		if worst > bound {
			c.Rep.Violate(verdict.Violation{Case: id, Sig: "depth-grows-with-iterations",
				What:   fmt.Sprintf("%s: call-stack depth grows with the number of non-yielding iterations: depth(iteration:frames) = %s; growth since iteration %d is %d frames at iteration %d (bound %d)", cfg, strings.Join(line, " "), from, worst, worstAt, bound),
				Replay: map[string]any{"only": id}})
		}
	}
	for _, cfg := range autoNames {
		configs = append(configs, cfg)
		withFirst[cfg] = true
	}
	for _, cfg := range configs {
		wg.Add(1)
		go run(cfg, n, false)
		if withFirst[cfg] {
			wg.Add(1)
			go run(cfg, n, true)
		}
	}
	wg.Add(1)
	go run("Chain", chain, false)
	wg.Wait()
	c.Rep.Sample(samples)
	c.Rep.Set("iterations_between_yields", n)
	c.Rep.Set("delegation_depth", chain)
	c.Rep.Set("growth_bound_frames", maxGrowth)
	c.Rep.Rule = "PRNG loop nests (120 quick / 400 thorough: 1..6 levels x seven loop forms incl. loops without init clause re-entered by an outer loop, decorated with Combine halves, monadic switches / ifs holding a never-taken yield, delegation to and consumer loops over an empty generator, closures, continue after the counter advanced) + 22 hand-written loop configurations (loop bodies that advance ANOTHER generator during the non-yielding stretch: flat-map over mostly empty sub-generators, manual pull, range over another generator; compiled for/while/infinite/continue/range-int/range-slice/switch/nested (inner three-clause, inner condition-only and endless loops without init that contain the yield, three levels)/filter-over-source generators produced by the real compiler, and raw seq.For/While/Loop/Combine terms incl. one inner loop VALUE re-run by an outer loop) whose body yields only on the last of n iterations, each also in the variant that yields at the first iteration too (the non-yielding stretch then follows a yield of the same loop run); runtime.Callers depth sampled inside the loop body/condition at iterations 2,10,100,...,n; oracle: depth(i>=10) - depth(10) <= 16 frames for the hand-written configurations, depth(i>=1000) - depth(1000) <= 96 frames for the PRNG nests (the depth differs by a few frames per nesting level with the position inside the nest; at n = 10^5 any per-iteration or per-outer-iteration growth exceeds the bound by orders of magnitude); delegation chains d=1..D: per-level increment constant (+4). One child process per configuration (a stack overflow is fatal). distinct = configuration x sampled iteration index."
	c.Rep.Assumptions = append(c.Rep.Assumptions,
		"the unbounded 'for all n' is restated as bounded growth up to the stated n; a finite run cannot decide more",
		"growth, not absolute depth, is judged, so refactorings that add a constant number of frames pass")
	c.Rep.RequireDistinct(40)
}

func firstLines(s string, n int) string {
	ls := strings.Split(s, "\n")
	if len(ls) > n {
		ls = ls[:n]
	}
	return strings.Join(ls, "\n")
}
