package engine

import (
	"covr/internal/cases"
	"covr/internal/e1"
	"covr/internal/genr"
)

func yields2(o *e1.Outcome) bool { return o.Run != nil && o.Run.MaxYields >= 2 }

// C01 — compiled generators yield exactly the source's coroutine sequence.
func C01(c *Ctx) {
	progs := ctlStream(c)
	c.Rep.Rule = "directed + bounded-exhaustive + PRNG control-flow programs, each under every decision-tape path (depth-first over the bits the reference run asks for, capped) and the drain history + truncations; compared: projection of the trace onto MoveNext results and Current values (compiled vs reference coroutine). non-trivial = reference yields >= 2 values on some path; distinct = shape hash x tape."
	RunE1(c, E1Spec{
		Programs:    progs,
		Opts:        e1.Opts{},
		Kinds:       []string{"CR-values", "STUB"},
		NonTrivial:  yields2,
		MinDistinct: 2,
	})
}

// ctlStream is the control-flow stream shared by C01 and C11.
func ctlStream(c *Ctx) []*e1.Program {
	q := c.Rep.QuarantinedFeatures()
	progs := append(cases.Ctl(), cases.Accept()...)
	nodes, capN, nrand := 3, 1500, 400
	if c.Thorough() {
		nodes, capN, nrand = 5, 20000, 5000
	}
	ex, total, complete := genr.Exhaustive(nodes, capN, q, c.Seed)
	progs = append(progs, ex...)
	progs = append(progs, genr.Random(genr.Ctl, nrand, c.Seed, q)...)
	c.Rep.Set("exhaustive_shapes_total", total)
	c.Rep.Set("exhaustive_shapes_complete", complete)
	c.Rep.Set("exhaustive_max_nodes", nodes)
	return progs
}

// C11 — the compiler accepts the supported subset and its output builds.
func C11(c *Ctx) {
	progs := ctlStream(c)
	c.Rep.Rule = "every supported-subset program of the E1 streams x import style; refuting observation = compiler panic or generated package that does not build. non-trivial = program accepted and executed; distinct = shape hash x tape."
	RunE1(c, E1Spec{
		Programs:             progs,
		Opts:                 e1.Opts{},
		Kinds:                []string{"STUB"},
		AcceptanceViolations: true,
		MinDistinct:          2,
	})
}
