package engine

import (
	"strings"

	"covr/internal/cases"
	"covr/internal/e1"
	"covr/internal/genr"
	"covr/internal/render"
	"covr/internal/verdict"
)

func yields2(o *e1.Outcome) bool { return o.Run != nil && o.Run.MaxYields >= 2 }

// C01 — compiled generators yield exactly the source's coroutine sequence.
func C01(c *Ctx) {
	progs := ctlStream(c)
	// values are functions of variables, delegates and ranged collections: the directed cases of the
	// neighbouring profiles and a PRNG sample of scope programs are compared on their value projection too
	progs = append(progs, cases.Scope()...)
	progs = append(progs, cases.Fx()...)
	progs = append(progs, cases.Deleg()...)
	nsc := 150
	if c.Thorough() {
		nsc = 1500
	}
	progs = append(progs, genr.Scope(nsc, c.Seed+11)...)
	progs = append(progs, genr.Transformer(nsc, c.Seed+21)...)
	c.Rep.Rule = "directed + bounded-exhaustive + PRNG control-flow programs, each under every decision-tape path (depth-first over the bits the reference run asks for, capped) and the drain history + truncations; compared: projection of the trace onto MoveNext results and Current values (compiled vs reference coroutine). non-trivial = reference yields >= 2 values on some path; distinct = shape hash x tape."
	RunE1(c, E1Spec{
		Programs: progs,
		Opts:     e1.Opts{},
		Kinds:    []string{"CR-values", "STUB"},
		// a supported program the compiler does not accept delivers nothing at all
		AcceptanceViolations: true,
		NonTrivial:           yields2,
		MinDistinct:          2,
	})
}

// ctlStream is the control-flow stream shared by C01 and C11.
func ctlStream(c *Ctx) []*e1.Program {
	q := c.Rep.QuarantinedFeatures()
	progs := append(cases.Ctl(), cases.Accept()...)
	progs = append(progs, cases.Range()...)
	progs = append(progs, cases.OptGen()...)
	// quick: every shape up to 3 nodes + a PRNG sample of the 4-node shapes; thorough: every shape up to 4 nodes + a sample of the 5-node ones
	nodes, capN, nrand := 4, 1200, 400
	if c.Thorough() {
		nodes, capN, nrand = 5, 20000, 5000
	}
	ex, total, complete := genr.Exhaustive(nodes, capN, q, c.Seed)
	progs = append(progs, ex...)
	progs = append(progs, genr.Random(genr.Ctl, nrand, c.Seed, q)...)
	c.Rep.Set("exhaustive_shapes_total", total)
	c.Rep.Set("exhaustive_shapes_complete", complete)
	c.Rep.Set("exhaustive_max_nodes", nodes)
	return progs
}

// C11 — the compiler accepts the supported subset and its output builds.
func C11(c *Ctx) {
	base := ctlStream(c)
	q := c.Rep.QuarantinedFeatures()
	nscope, ndeleg, ncons := 120, 40, 60
	if c.Thorough() {
		nscope, ndeleg, ncons = 1500, 400, 800
	}
	base = append(base, cases.Fx()...)
	base = append(base, cases.Scope()...)
	base = append(base, cases.OptGen()...)
	base = append(base, genr.Scope(nscope, c.Seed+5)...)
	rg, _ := genr.Range(c.Seed+6, 150, q)
	base = append(base, rg...)
	// every standard program additionally in another generator form (method, generic, literal, nested literal),
	// cycling through forms x import styles
	var progs []*e1.Program
	k := 0
	for _, p := range base {
		progs = append(progs, p)
		form := 1 + k%(genr.NForms-1)
		ownAPIImport := false
		for _, im := range p.Imports {
			if strings.Contains(im, "github.com/goghcrow/go-co") {
				ownAPIImport = true // the case is about its own import of the API / of seq: no other import style
			}
		}
		if (c.Thorough() || k%2 == 0) && !ownAPIImport {
			if w := genr.WithForm(p, form); w != nil {
				w.Style = render.Style((k / (genr.NForms - 1)) % int(render.NStyles))
				progs = append(progs, w)
			}
		}
		k++
	}
	progs = append(progs, cases.Opt()...)
	progs = append(progs, cases.Edge()...)
	// the edge cases (names, imports, type positions) also each in a file of its own: conditions that hold per
	// FILE (is a name used anywhere, is a package imported already) are masked by the other programs of a batch
	for _, p := range cases.Edge() {
		q := *p
		q.Name += "+alone"
		q.Isolate = true
		progs = append(progs, &q)
	}
	progs = append(progs, cases.Deleg()...)
	progs = append(progs, cases.Consumer()...)
	progs = append(progs, genr.Deleg(ndeleg, c.Seed+7)...)
	progs = append(progs, genr.Consumer(ncons, c.Seed+8)...)
	c.Rep.Rule = "every supported-subset program of the E1 streams (control flow exhaustive + PRNG, fx, scope, range, delegation, consumer, optimiser/bystander cases) x 5 import styles (dot / default name / renamed / seq already imported under its default name or an alias) x 6 generator forms (function, method with value and pointer receiver, generic function, function literal, nested literal); refuting observation = panic of the stand-alone compile driver or a generated package that does not build without the co tag (attributed to one program by re-running it alone); accepted programs are also executed (a surviving Yield stub call is a violation). non-trivial = accepted and executed; distinct = shape hash x tape."
	RunE1(c, E1Spec{
		Programs:             progs,
		Opts:                 e1.Opts{MaxPaths: 16, Hist: []int{}},
		Kinds:                []string{"STUB"},
		AcceptanceViolations: true,
		MinDistinct:          500,
	})
}

// C02 — demand-driven, lockstep execution.
func C02(c *Ctx) {
	q := c.Rep.QuarantinedFeatures()
	progs := append(cases.Fx(), cases.Ctl()...)
	progs = append(progs, cases.Accept()...)
	progs = append(progs, cases.OptGen()...)
	nodes, capN, nrand := 4, 1000, 500
	if c.Thorough() {
		nodes, capN, nrand = 5, 12000, 6000
	}
	ex, total, complete := genr.Exhaustive(nodes, capN, q, c.Seed)
	progs = append(progs, ex...)
	progs = append(progs, genr.Random(genr.Fx, nrand, c.Seed+1, q)...)
	progs = append(progs, genr.Random(genr.Panic, nrand/3, c.Seed+4, q)...) // leading guards, panicking yield arguments: effects must not move to creation time
	// range loops: the range expression is evaluated exactly once, by the step that enters the loop
	progs = append(progs, cases.Range()...)
	progs = append(progs, cases.Scope()...)
	nrg := 500
	if c.Thorough() {
		nrg = 0
	}
	rg, _ := genr.Range(c.Seed+12, nrg, q)
	progs = append(progs, rg...)
	c.Rep.Set("exhaustive_shapes_total", total)
	c.Rep.Set("exhaustive_shapes_complete", complete)
	c.Rep.Rule = "effect-dense programs (variables mutated after being yielded, effects in every slot) under every decision-tape path and the histories drain / K=0,1,2,4 / 2 calls after exhaustion; compared: the FULL interleaved trace (consumer call/return markers + generator-side effects and expression evaluations) compiled vs reference coroutine, plus 'no event after the consumer stopped'. non-trivial = >= 2 yields on some path; distinct = shape hash x tape."
	RunE1(c, E1Spec{
		Programs:             progs,
		Opts:                 e1.Opts{Hist: []int{0, 1, 2, 4}, HistPaths: 4},
		Kinds:                []string{"CR-full", "POSTSTOP", "STUB"},
		AcceptanceViolations: true,
		NonTrivial:           yields2,
		MinDistinct:          500,
	})
}

// C13 — non-generator code is behaviourally unchanged.
func C13(c *Ctx) {
	progs := append(cases.Opt(), cases.OptGen()...)
	// closures and pointers created by ordinary code inside generators must keep denoting the same variables
	progs = append(progs, cases.Scope()...)
	// ... and range loops written in plain closures of generators (labels, goto, effectful key operands)
	progs = append(progs, cases.Range()...)
	nby := 150
	if c.Thorough() {
		nby = 2000
	}
	progs = append(progs, genr.Bystander(nby, c.Seed)...)
	// range loops inside ordinary closures nested in generators (every range statement there is replaced by a
	// hand-written iterator): all kinds x forms x mutations of the two closure body shapes
	rg, _ := genr.Range(c.Seed+14, 0, c.Rep.QuarantinedFeatures())
	for _, p := range rg {
		if p.Has("range-body:closure") || p.Has("range-body:closure-var-update") {
			progs = append(progs, p)
		}
	}
	c.Rep.Rule = "PRNG bystander programs (3-6 closure wrappers `func(ps) R { return f(ps) }` over 28 callee kinds — local / package function variables, pointer / value / interface / embedded / field method values incl. nil at creation, call results, indexed and map callees, package functions, generic functions with inferred / explicit / partial instantiation, builtins, conversions, variadics, widening results, method expressions, defer — each created, then its dependency changed, then called), ordinary closures inside generator bodies (three-clause loops capturing their variable, labelled loops, switch initialisers, defer; method values / function variables called after a yield) compared with the reference coroutine, and bystander declarations (closures of the shape func(ps){return f(ps)} over mutable function variables, method values, builtins, conversions, generic/variadic callees, widening results; constants, initialisers, methods) co-located with a generator; the SOURCE package built natively is the reference, the generated package must produce the same result/effect trace and must build. distinct = program x tape."
	RunE1(c, E1Spec{
		Programs:             progs,
		Opts:                 e1.Opts{},
		Kinds:                []string{"NC-full", "CR-full", "STUB"},
		AcceptanceViolations: true,
		MinDistinct:          100,
	})
}

// C07 — the optimisation pass never changes behaviour (stage-1 vs final, hook H1).
func C07(c *Ctx) {
	q := c.Rep.QuarantinedFeatures()
	progs := append(cases.Opt(), cases.OptGen()...)
	progs = append(progs, cases.Edge()...)
	progs = append(progs, cases.Fx()...)
	progs = append(progs, cases.Ctl()...)
	progs = append(progs, cases.Accept()...)
	nodes, capN, nrand := 3, 1500, 300
	if c.Thorough() {
		nodes, capN, nrand = 4, 8000, 4000
	}
	ex, total, complete := genr.Exhaustive(nodes, capN, q, c.Seed)
	progs = append(progs, ex...)
	progs = append(progs, genr.Random(genr.Fx, nrand, c.Seed+2, q)...)
	progs = append(progs, genr.Random(genr.Ctl, nrand, c.Seed+3, q)...)
	progs = append(progs, genr.Bystander(nrand/3, c.Seed+9)...)
	progs = append(progs, genr.Random(genr.Panic, nrand/3, c.Seed+10, q)...)
	c.Rep.Set("exhaustive_shapes_total", total)
	c.Rep.Set("exhaustive_shapes_complete", complete)
	c.Rep.Rule = "every program of the E1 streams + optimiser-directed cases (eta-reduction side conditions, user closures in the same file, loop conditions that are method values / function variables); the unoptimised stage-1 package (snapshot taken by the verif hook inside the real Compile) and the optimised package are both built and run under every tape path and history; compared: full interleaved traces stage-1 vs final; final must build whenever stage-1 builds. non-trivial = the optimiser changed the text of the program's declarations (measured); distinct = shape hash x tape."
	outs := RunE1(c, E1Spec{
		Programs:    progs,
		Opts:        e1.Opts{Stage1: true},
		Kinds:       []string{"SC-full"},
		NonTrivial:  func(o *e1.Outcome) bool { return o.OptFired },
		MinDistinct: 500,
		Judge: func(c *Ctx, o *e1.Outcome) bool {
			if o.CompilePanic == "" && strings.Contains(o.BuildErr, "imported and not used") {
				// whatever stage 1 looks like (it never cleans imports): the import clean-up kept an import that
				// breaks the build of the final package
				c.Rep.Violate(verdict.Violation{Case: o.Prog.Name, Sig: "import-kept-that-breaks-the-build:" + buildSig(o.BuildErr),
					What:   "the import clean-up of the optimiser left an unused import in the generated file:\n" + trimTo(o.BuildErr, 1500) + "\n--- source\n" + o.CoSource,
					Replay: replayDoc{Engine: "e1", Program: o.Prog, Stage1: true, CoSrc: o.CoSource, Output: o.OutText}})
				return true
			}
			if o.CompilePanic == "" && o.BuildErr != "" && o.S1BuildErr == "" {
				c.Rep.Violate(verdict.Violation{Case: o.Prog.Name, Sig: "optimised-does-not-build:" + buildSig(o.BuildErr),
					What:   "the optimised package does not build although the unoptimised stage-1 package does:\n" + trimTo(o.BuildErr, 1500) + "\n--- source\n" + o.CoSource,
					Replay: replayDoc{Engine: "e1", Program: o.Prog, Stage1: true, CoSrc: o.CoSource, Output: o.OutText}})
				return true
			}
			return false
		},
	})
	fired := 0
	for _, o := range outs {
		if o.OptFired {
			fired++
		}
	}
	c.Rep.Count("programs_where_optimiser_changed_text", fired)
}

// C03 — locals and lexical scoping survive suspension.
func C03(c *Ctx) {
	progs := append(cases.Scope(), cases.OptGen()...)
	n := 700
	if c.Thorough() {
		n = 8000
	}
	progs = append(progs, genr.Scope(n, c.Seed)...)
	// the variables of consumer loops over iterators are scoped like range variables
	progs = append(progs, cases.Consumer()...)
	// iteration variables of range loops: one variable per iteration, updates by the body do not leak into the iteration
	progs = append(progs, cases.Range()...)
	rg, _ := genr.Range(c.Seed+13, 0, c.Rep.QuarantinedFeatures())
	for _, p := range rg {
		if p.Has("range-body:capture") || p.Has("range-body:yield-after-loop-var-update") {
			progs = append(progs, p)
		}
	}
	c.Rep.Rule = "programs that declare, shadow (nested blocks, if/for/switch/type-switch initialisers, range variables, case clauses), update and capture int locals from a 4-name pool at arbitrary positions relative to yields; every relevant variable read is a trace event r<id>=<value>; compared: full trace compiled vs reference coroutine under every tape path. non-trivial = >= 2 yields and the program shadows or captures; distinct = program text hash x tape."
	RunE1(c, E1Spec{
		Programs:             progs,
		Opts:                 e1.Opts{},
		Kinds:                []string{"CR-full", "STUB"},
		AcceptanceViolations: true,
		NonTrivial: func(o *e1.Outcome) bool {
			return yields2(o) && (o.Prog.Has("shadow") || o.Prog.Has("closure-capture-across-yield") || o.Prog.Has("for-post-yield"))
		},
		MinDistinct: 300,
	})
}

// C04 — range loops inside generators behave like Go's range.
func C04(c *Ctx) {
	q := c.Rep.QuarantinedFeatures()
	// the whole systematic space is small enough for the quick tier; the thorough tier adds the other
	// wrapping variant of every range expression and every program in a second generator form
	keep := 0
	gen, total := genr.Range(c.Seed, keep, q)
	progs := append(cases.Range(), gen...)
	if c.Thorough() {
		alt, _ := genr.Range(c.Seed+1, keep, q)
		for i, p := range alt {
			if w := genr.WithForm(p, 1+i%(genr.NForms-1)); w != nil {
				progs = append(progs, w)
			}
		}
	}
	c.Rep.Set("systematic_range_programs_total", total)
	c.Rep.Exhaustive = keep == 0
	c.Rep.Rule = "systematic cross product: 18 collection kinds (ASCII / multi-byte / invalid-UTF-8 / empty / reassigned strings, slices incl. nil and spare capacity, arrays, maps, channels, ints incl. 0 and negative) x 8 variable forms (none, k, k/_ , k/v, _/v with := and =) x 6 body shapes (yielding, non-yielding, inside a nested closure, break/continue, nested ranges, body updates the iteration variable) x mutation of the ranged collection at the first iteration; range expression wrapped to count evaluations; reference = Go's native range statement on the same text. Multi-entry maps compared as sorted multisets. non-trivial = >= 2 yields; distinct = program text hash x tape."
	RunE1(c, E1Spec{
		Programs:             progs,
		Opts:                 e1.Opts{Hist: []int{1, 3}, HistPaths: 2},
		Kinds:                []string{"CR-full", "STUB"},
		AcceptanceViolations: true,
		NonTrivial:           yields2,
		MinDistinct:          300,
	})
}

// C05 — YieldFrom splices the delegate lazily and in order.
func C05(c *Ctx) {
	n := 250
	if c.Thorough() {
		n = 3000
	}
	progs := append(cases.Deleg(), genr.Deleg(n, c.Seed)...)
	c.Rep.Rule = "directed delegation cases (depth-3000 chain fully drained, recursion, partially consumed delegate, same iterator delegated twice, for-post / switch positions, generic and method generators) + PRNG call graphs over leaf / chain / tree-walk / empty / nested-literal delegates; every PRNG program also as its metamorphic twin with `for v := range it { Yield(v) }` spelled out; compared: full trace (argument evaluation events, delegate-side effects, lockstep) compiled vs reference coroutine under every tape path and truncation histories. non-trivial = >= 2 yields; distinct = program text hash x tape."
	RunE1(c, E1Spec{
		Programs:             progs,
		Opts:                 e1.Opts{Hist: []int{0, 1, 3, 6}, HistPaths: 3, MaxPaths: 32},
		Kinds:                []string{"CR-full", "STUB"},
		AcceptanceViolations: true,
		NonTrivial:           yields2,
		MinDistinct:          300,
	})
}

// C06 — consumer-side range/pull code.
func C06(c *Ctx) {
	n := 400
	if c.Thorough() {
		n = 5000
	}
	progs := append(cases.Consumer(), genr.Consumer(n, c.Seed)...)
	progs = append(progs, cases.Edge()...)
	// generators that consume other iterators (range over an iterator with a yielding body, exits before / behind
	// the yield, in every statement context, with statements after the loop)
	progs = append(progs, genr.Transformer(n/2, c.Seed+21)...)
	c.Rep.Rule = "consumer functions in processed files: range loops over iterators (:= and = binding, no variable) with break/continue/return at tape-chosen iterations, nested ranges, pull-then-range-then-pull on ONE iterator, iterators held in struct fields / maps / slices / arrays / channels / closures / func slices / generic boxes, generic and method generators, plain helper functions that return or break out of a range; the generator side logs an effect before each yield, so over-pulling is an extra event; reference = Go's range-over-func over All() on the reference coroutine; compared: full trace under every tape path. non-trivial = trace longer than 10 events; distinct = program text hash x tape."
	RunE1(c, E1Spec{
		Programs:             progs,
		Opts:                 e1.Opts{MaxPaths: 40},
		Kinds:                []string{"CR-full", "STUB"},
		AcceptanceViolations: true, // incomplete type replacement shows up as an unbuildable output
		NonTrivial:           func(o *e1.Outcome) bool { return o.Run != nil && o.Run.MaxTrace > 10 },
		MinDistinct:          300,
	})
}

// C18 — panics surface from the advance that ran the panicking statement.
func C18(c *Ctx) {
	q := c.Rep.QuarantinedFeatures()
	n := 600
	if c.Thorough() {
		n = 8000
	}
	progs := append(cases.Panics(), genr.Random(genr.Panic, n, c.Seed, q)...)
	c.Rep.Rule = "programs with explicit panics (string and error values) and implicit run-time panics (index out of range, nil map write, integer division by zero, nil func call) at PRNG-chosen statement positions, mostly guarded by a tape bit so that paths with and without the panic are explored; also in delegates, loop conditions, for-post, switch tags, closures called after a yield, two live iterators; the consumer wraps EACH call in its own recover and logs the panic at the call where it surfaced; compared: full trace (which call, which value, everything before it) compiled vs reference coroutine; nothing after the panicking call is compared. non-trivial = some path panicked; distinct = shape hash x tape."
	RunE1(c, E1Spec{
		Programs:             progs,
		// panicnil=1: panic(nil) keeps its pre-1.21 meaning (recover() returns nil), which is what a user module
		// with go <= 1.20 (like go-co's own go.mod) gets; both variants run under the same setting
		Opts:                 e1.Opts{Hist: []int{1, 2, 3}, HistPaths: 3, Env: []string{"GODEBUG=panicnil=1"}},
		Kinds:                []string{"CR-full", "STUB"},
		AcceptanceViolations: true,
		NonTrivial:           func(o *e1.Outcome) bool { return o.Run != nil && o.Run.PanicRuns > 0 },
		MinDistinct:          300,
	})
}

// C12 — unsupported constructs are rejected or preserved, never silently mistranslated.
func C12(c *Ctx) {
	progs := cases.Reject()
	ninj := 200
	if c.Thorough() {
		ninj = 1400
	}
	progs = append(progs, genr.Inject(ninj, c.Seed, c.Rep.QuarantinedFeatures())...)
	c.Rep.Rule = "PRNG control-flow programs with ONE unsupported construct (13 constructs, each in variants with break / continue / yield inside, or a yield in the initialiser of an if / else-if arm) injected at a PRNG-chosen statement position, and directed: supported programs with ONE unsupported construct (goto, labels, labelled break/continue, select, defer, fallthrough out of / into a yielding case, range over func / pointer-to-array / type parameter, yield in an if initialiser, go/defer Yield, wrong result signatures, range over an iterator without variable) injected at 5 statement positions, one compiler invocation per case; outcome classes: rejected with a non-empty diagnostic / output does not build / trace equal to the reference coroutine (the construct simply executes natively there) are fine; a divergent trace or a surviving Yield stub call (observed by the trap overlay of co.go) is a violation; negative controls put the construct into a nested non-generator closure, where it must be accepted and equivalent. distinct = case x tape."
	classes := map[string]int{}
	RunE1(c, E1Spec{
		Programs:    progs,
		Opts:        e1.Opts{},
		Kinds:       []string{"CR-full", "STUB"},
		MinDistinct: 20,
		Judge: func(c *Ctx, o *e1.Outcome) bool {
			p := o.Prog
			if p.Expect == "accept" {
				if o.CompilePanic != "" || o.BuildErr != "" {
					c.Rep.Violate(verdict.Violation{Case: p.Name, Sig: "negative-control-not-accepted:" + firstLine(o.CompilePanic) + buildSig(o.BuildErr),
						What:   "negative control (construct inside a nested non-generator closure) was not accepted:\n" + o.CompilePanic + trimTo(o.BuildErr, 1000) + "\n--- source\n" + o.CoSource,
						Replay: replayDoc{Engine: "e1", Program: p, CoSrc: o.CoSource}})
					return true
				}
				classes["control-accepted"]++
				return false
			}
			switch {
			case strings.Contains(o.CompilePanic, "GOGEN-NO-OUTPUT"):
				// the go:generate entry point returned normally but derived nothing for a file that uses the API:
				// neither a rejection (cogen would exit 0) nor an output; an output of an earlier run stays in place
				c.Rep.Violate(verdict.Violation{Case: p.Name, Sig: "tool-succeeded-without-output", What: "rewriter.GoGen (what cmd/cogen runs) returned without a diagnostic and without deriving a file for a source with an unsupported construct: the tool exits 0 and a stale output of an earlier run keeps being built\n" + o.CompilePanic + "\n--- source\n" + o.CoSource, Replay: replayDoc{Engine: "e1", Program: p, CoSrc: o.CoSource}})
			case o.CompilePanic != "":
				if strings.TrimSpace(o.CompilePanic) == "" {
					c.Rep.Violate(verdict.Violation{Case: p.Name, Sig: "rejected-without-diagnostic", What: "compiler rejected the program with an empty diagnostic\n" + o.CoSource})
				}
				classes["rejected"]++
				c.Rep.Distinct(p.ShapeHash() + "/rejected")
				if len(classes) < 40 {
					c.Rep.Sample(map[string]any{"case": p.Name, "outcome": "rejected", "diagnostic": firstLine(o.CompilePanic)})
				}
				return true
			case o.BuildErr != "":
				classes["unbuildable"]++
				c.Rep.Distinct(p.ShapeHash() + "/unbuildable")
				return true
			case o.Run != nil && o.Crashed == "" && o.Hung == "":
				bad := false
				for _, d := range o.Run.Diffs {
					if d.Kind == "CR-full" || d.Kind == "STUB" {
						bad = true
					}
				}
				if bad {
					classes["divergent"]++
				} else if p.NoRef {
					classes["accepted-without-reference(no stub call observed)"]++
				} else {
					classes["equivalent"]++
				}
			}
			return false
		},
	})
	for k, v := range classes {
		c.Rep.Count("outcome_"+k, v)
	}
}
