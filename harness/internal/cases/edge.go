package cases

import (
	"covr/internal/e1"
	"covr/internal/render"
)

// Edge returns directed acceptance / behaviour cases about names, imports and
// type positions (C11, C06, C07).
func Edge() []*e1.Program {
	styled := func(p *e1.Program, st render.Style) *e1.Program { p.Style = st; return p }
	withImp := func(p *e1.Program, imps ...string) *e1.Program { p.Imports = imps; return p }
	isolated := func(p *e1.Program) *e1.Program { p.Isolate = true; return p }
	return []*e1.Program{
		// a local variable named like the seq package, in a file that already imports seq under that name
		styled(G("edge-local-var-named-seq", `
seq := tr.V(1, 3)
YIELD(seq)
seq++
YIELD(seq)
RETNIL`, "name:seq"), render.DotSeq),
		styled(G("edge-local-var-named-sq-alias", `
sq := tr.V(1, 3)
for i := 0; i < 2; i++ {
	YIELD(sq + i)
}
RETNIL`, "name:seq"), render.NamedSeq),
		// the name of the file's own seq import bound by every other kind of declaration: parameter, receiver, named
		// result, range variables, function-literal parameter, type-switch binding, constant, type, label-free
		// (a package of its own: no other declaration of the file may mention the name)
		isolated(styled(Raw("edge-seq-name-bound-by-parameters-receivers-results-and-range-variables", `
type §bag struct{ xs []int }

func (seq §bag) Each() ITER[int] GEN[int]{
	for _, x := range seq.xs {
		YIELD(x)
	}
	RETNIL
}GEN
func §chunks(seq []int, n int) ITER[int] GEN[int]{
	for len(seq) > 0 {
		k := min(n, len(seq))
		YIELD(k*100 + seq[0])
		seq = seq[k:]
	}
	RETNIL
}GEN
func §named() (seq ITER[int]) GEN[int]{
	YIELD(7)
	RETNIL
}GEN
func §gen() ITER[int] GEN[int]{
	YFROM(§bag{[]int{1, 2}}.Each())
	YFROM(§chunks([]int{3, 4, 5}, 2))
	YFROM(§named())
	for seq := range []int{8, 9} {
		YIELD(seq)
	}
	for _, seq := range "ab" {
		YIELD(int(seq))
	}
	for seq := range OVER<<§named()>>OVER {
		YIELD(seq + 1)
	}
	f := func(seq int) int { return seq * 2 }
	YIELD(f(10))
	g := func(seq int) ITER[int] GEN[int]{
		YIELD(seq)
		YIELD(seq + 1)
		RETNIL
	}GEN
	YFROM(g(30))
	RETNIL
}GEN
`+StdEntry, "name:seq"), render.DotSeq)),
		styled(G("edge-seq-name-bound-by-initialisers-constants-and-types", `
switch seq := any(tr.V(1, 5)).(type) {
case int:
	YIELD(seq)
}
if seq := tr.V(2, 6); seq > 0 {
	YIELD(seq)
}
{
	const seq = 40
	YIELD(seq)
}
{
	type seq struct{ v int }
	YIELD(seq{41}.v)
}
RETNIL`, "name:seq"), render.DotSeq),
		isolated(styled(Raw("edge-seq-alias-name-bound-by-parameters-receivers-results-and-range-variables", `
type §bag struct{ xs []int }

func (sq *§bag) Each() ITER[int] GEN[int]{
	for _, x := range sq.xs {
		YIELD(x)
	}
	RETNIL
}GEN
func §tail(sq []int) (_ ITER[int]) GEN[int]{
	for sq := range sq {
		YIELD(sq)
	}
	RETBARE
}GEN
func §gen() ITER[int] GEN[int]{
	YFROM((&§bag{[]int{1, 2}}).Each())
	YFROM(§tail([]int{5, 6}))
	for sq, v := range map[int]int{3: 4} {
		YIELD(sq*10 + v)
	}
	RETNIL
}GEN
`+StdEntry, "name:seq"), render.NamedSeq)),
		// the API functions explicitly instantiated
		Raw("edge-explicitly-instantiated-yield-and-yieldfrom", `
type §node struct {
	v    any
	kids []*§node
}

func (n *§node) Walk() ITER[any] GEN[any]{
	if n == nil {
		RETNIL
	}
	YIELDT[any](n.v)
	for _, k := range n.kids {
		YFROMT[any](k.Walk())
	}
	YIELDT[any]("end")
	RETNIL
}GEN
func §ints[T ~int](xs ...T) ITER[T] GEN[T]{
	for _, x := range xs {
		YIELDT[T](x)
	}
	RETNIL
}GEN
func §twice[T ~int](xs ...T) ITER[T] GEN[T]{
	YFROMT[T](§ints(xs...))
	YFROMT[T](§ints[T](xs...))
	RETNIL
}GEN
func §gen() ITER[int] GEN[int]{
	t := &§node{1, []*§node{{"two", nil}, {3, []*§node{{4, nil}}}}}
	for v := range OVER<<t.Walk()>>OVER {
		switch x := v.(type) {
		case int:
			YIELDT[int](x)
		case string:
			YIELDT[int](len(x) * 100)
		}
	}
	YFROMT[int](§twice(7, 8))
	for YFROMT[int](§ints(1)); tr.B(1); YIELDT[int](9) {
		tr.E(2)
	}
	RETNIL
}GEN
`+StdEntry, "explicit-instantiation"),
		styled(Raw("edge-explicitly-instantiated-yield-and-yieldfrom-named-import", `
func §sub(n int) ITER[int] GEN[int]{
	for i := range n {
		YIELDT[int](i)
	}
	RETNIL
}GEN
func §gen() ITER[int] GEN[int]{
	YFROMT[int](§sub(2))
	f := func() ITER[int] GEN[int]{
		YFROMT[int](§sub(1))
		YIELDT[int](5)
		RETNIL
	}GEN
	YFROMT[int](f())
	RETNIL
}GEN
`+StdEntry, "explicit-instantiation"), render.Named),
		// user functions that merely share the API's names (named import style)
		styled(Raw("edge-user-func-named-yield", `
func §Yield(x int) int { return tr.V(1, x*2) }
func §gen() ITER[int] GEN[int]{
	YIELD(§Yield(1))
	§Yield(5)
	YIELD(§Yield(2))
	RETNIL
}GEN
`+StdEntry, "name:yield"), render.Named),
		// imports used only inside generator bodies / only in closures / only in type positions
		withImp(G("edge-import-used-only-in-yield-expression", `
YIELD(len(strings.Repeat("ab", tr.V(1, 2))))
YIELD(strings.Count("banana", "a"))
RETNIL`, "imports"), "strings"),
		withImp(G("edge-import-used-only-in-nested-closure", `
f := func(x int) string { return strconv.Itoa(x) }
YIELD(len(f(12345)))
RETNIL`, "imports"), "strconv"),
		withImp(Raw("edge-import-used-only-in-type-position", `
func §gen(w io.Writer) ITER[int] GEN[int]{
	tr.U(w)
	YIELD(1)
	RETNIL
}GEN
func §E() { drv.Run[int](func() drv.It[int] { it := §gen(nil); return it }) }
`, "imports"), "io"),
		// type positions of the iterator type
		Raw("edge-iter-type-alias-and-signatures", `
type §IntIter = ITER[int]
type §Source interface {
	Open(n int) ITER[int]
}
type §src struct{}

func (§src) Open(n int) ITER[int] GEN[int]{
	for i := 0; i < n; i++ {
		YIELD(i)
	}
	RETNIL
}GEN
func §pipe(in §IntIter, fs ...func(ITER[int]) ITER[int]) §IntIter {
	for _, f := range fs {
		in = f(in)
	}
	return in
}
func §double(in ITER[int]) ITER[int] GEN[int]{
	for v := range OVER<<in>>OVER {
		YIELD(v * 2)
	}
	RETNIL
}GEN
func §E() {
	var s §Source = §src{}
	var its map[string]*ITER[int]
	tr.U(its)
	out := §pipe(s.Open(3), §double, §double)
	next := out.MoveNext
	for next() {
		tr.V(1, out.Current())
	}
	var zero ITER[int]
	tr.V(2, zero == nil)
}
`, "types"),
		Raw("edge-generic-generators-with-constraints", `
type §num interface{ ~int | ~float64 }

func §scan[T §num](xs []T) ITER[T] GEN[T]{
	var acc T
	for _, x := range xs {
		acc += x
		YIELD(acc)
	}
	RETNIL
}GEN
func §zip[A, B any](a ITER[A], b ITER[B], f func(A, B) int) ITER[int] GEN[int]{
	for a.MoveNext() && b.MoveNext() {
		YIELD(f(a.Current(), b.Current()))
	}
	RETNIL
}GEN
func §E() {
	it := §zip(§scan([]int{1, 2, 3}), §scan([]float64{0.5, 1.5}), func(x int, y float64) int { return x*10 + int(y) })
	for it.MoveNext() {
		tr.V(1, it.Current())
	}
}
`, "types", "generic"),
		Raw("edge-generator-of-generators", `
func §inner(n int) ITER[int] GEN[int]{
	for i := 0; i < n; i++ {
		YIELD(n*10 + i)
	}
	RETNIL
}GEN
func §outer() ITER[ITER[int]] GEN[ITER[int]]{
	for n := 1; n <= 3; n++ {
		tr.E(n)
		YIELD(§inner(n))
	}
	RETNIL
}GEN
func §E() {
	for it := range OVER<<§outer()>>OVER {
		for v := range OVER<<it>>OVER {
			tr.V(1, v)
		}
	}
}
`, "types", "nested-iter"),
		Raw("edge-string-rune-any-element-types", `
func §words() ITER[string] GEN[string]{
	for _, w := range []string{"a", "", "ccc"} {
		YIELD(w + "!")
	}
	RETNIL
}GEN
func §runes(s string) ITER[rune] GEN[rune]{
	for _, r := range s {
		YIELD(r)
	}
	RETNIL
}GEN
func §anys() ITER[any] GEN[any]{
	YIELD(any(nil))
	YIELD(1)
	YIELD("x")
	var e error
	YIELD(e)
	RETNIL
}GEN
func §E() {
	drv.Run[string](func() drv.It[string] { it := §words(); return it })
	drv.Run[rune](func() drv.It[rune] { it := §runes("hé"); return it })
	drv.Run[any](func() drv.It[any] { it := §anys(); return it })
}
`, "types", "elem"),
	}
}
