package cases

import "covr/internal/e1"

// Scope returns the directed scoping cases (C03).
func Scope() []*e1.Program {
	withFmt := func(p *e1.Program) *e1.Program { p.Imports = []string{"fmt"}; return p }
	return []*e1.Program{
		G("scope-for-post-reads-shadowed-name", `
a := 42
for cnt := 5; cnt > 0; YIELD(func() int {
	cnt--
	a++
	return a - 1
}()) {
	a := 100
	YIELD(a)
	a++
}
RETNIL`, "for-post-yield", "shadow"),
		G("scope-yielding-post-reads-name-shadowed-by-trivial-body", `
x := 1
for i := 0; i < 2; YIELD(x*100 + i) {
	i++
	x := 50
	tr.U(x)
}
YIELD(x)
RETNIL`, "for-post-yield", "shadow"),
		G("scope-multi-variable-for-init-shadows-earlier-local", `
base := tr.V(1, 7) * 10
origin := func() int { return tr.R(2, base) }
bump := func() { base += 1000 }
for base, i := 0, 0; ; i++ {
	if i >= 3 {
		RETNIL
	}
	YIELD(origin() + tr.R(3, base))
	base += 100
	bump()
}
RETNIL`, "for-init-decl", "shadow", "for:multi-init"),
		G("scope-multi-variable-for-init-shadows-earlier-local-variants", `
x, y := 5, 6
px := &x
gety := func() int { return tr.R(1, y) }
for x, k := 100, 0; k < 2; k++ {
	YIELD(x + *px)
	x++
	*px += 10
}
YIELD(x)
for y, k := gety()+200, 0; ; k++ {
	if k == 2 {
		break
	}
	y += 3
	YIELD(y*1000 + gety())
}
YIELD(y)
{
	z := 1
	getz := func() int { return tr.R(2, z) }
	for z, k := 40, 0; ; k, z = k+1, z+1 {
		if k > 1 {
			YIELD(z)
			RETNIL
		}
		YIELD(getz()*100 + z)
	}
}
RETNIL`, "for-init-decl", "shadow", "for:multi-init"),
		G("scope-multi-variable-init-of-if-and-switch-shadows-earlier-local", `
v := 3
getv := func() int { return tr.R(1, v) }
if v, w := v*10, 1; tr.B(2) {
	YIELD(v + w)
	v++
	YIELD(getv()*100 + v)
} else {
	YIELD(getv())
}
switch v, w := v+50, 2; {
case tr.B(3):
	YIELD(v * w)
	v += 5
	YIELD(getv()*100 + v)
default:
	YIELD(-v)
}
YIELD(getv())
RETNIL`, "if-init:decl", "shadow"),
		G("scope-partial-redeclaration-after-yield-aliased-through-field-method-or-slice", `
type acc struct{ n, m int }
var a acc
pf := &a.n
YIELD(a.n)
a, kk := acc{n: 5, m: 1}, 2
*pf += kk
YIELD(a.n*10 + *pf)
var arr [3]int
sl := arr[:]
YIELD(arr[0])
arr, qq := [3]int{1, 2, 3}, 9
sl[0] += qq
YIELD(arr[0]*100 + sl[0])
xs := []int{1, 2}
p0 := &xs[0]
YIELD(xs[0])
xs, rr := append(xs[:1:1], 7), 3
*p0 += rr
YIELD(xs[0]*10 + len(xs))
RETNIL`, "partial-redeclaration"),
		G("scope-same-variable-partially-redeclared-before-and-after-a-yield", `
x := 1
get := func() int { return tr.R(1, x) }
x, a1 := tr.V(2, 2), 3
YIELD(get()*10 + a1)
x, a2 := tr.V(3, 4), 5
YIELD(get()*100 + a2 + x)
x, a3 := x+1, 6
YIELD(get()*1000 + a3 + x)
{
	y := 1
	gety := func() int { return tr.R(4, y) }
	y, b1 := 2, 3
	if tr.B(5) {
		YIELD(gety() + b1)
	}
	y, b2 := y*10, 4
	YIELD(gety()*10 + b2 + y)
}
RETNIL`, "partial-redeclaration"),
		G("scope-partial-redeclaration-after-yield-in-case-clauses", `
switch tr.N(1, 2) {
case 0:
	x := 1
	get := func() int { return tr.R(2, x) }
	YIELD(x)
	x, a1 := x+10, 1
	YIELD(get()*10 + a1 + x)
default:
	x := 2
	p := &x
	YIELD(x)
	x, a2 := x+20, 2
	YIELD(*p*10 + a2 + x)
}
switch v := any(tr.V(3, 7)).(type) {
case int:
	get := func() int { return tr.R(4, v) }
	YIELD(v)
	v, a3 := v+100, 3
	YIELD(get()*10 + a3 + v)
}
ch := make(chan int, 1)
ch <- 5
y := 0
gety := func() int { return tr.R(5, y) }
func() {
	select {
	case y = <-ch:
	}
}()
YIELD(gety())
y, a4 := y+1, 4
YIELD(gety()*10 + a4 + y)
RETNIL`, "partial-redeclaration"),
		G("scope-partial-redeclaration-after-yield", `
a := 1
get := func() int { return tr.R(1, a) }
YIELD(a)
a, b := tr.V(2, 2), tr.V(3, 3)
YIELD(a*10 + b)
YIELD(get())
a, c := pairOf(a)
YIELD(a*100 + c)
YIELD(get())
if tr.B(4) {
	YIELD(0)
	a, d := 7, 8
	YIELD(a + d)
}
YIELD(get())
RETNIL`, "partial-redeclaration"),
		withFmt(G("scope-partial-redeclaration-untyped-constants", `
var a float64 = 1
var p *int
var e error
var s any
geta := func() int { return tr.R(1, int(a*10)) }
getp := func() int { if p == nil { return tr.R(2, 0) }; return tr.R(2, *p) }
gete := func() int { if e == nil { return tr.R(3, 0) }; return tr.R(3, len(e.Error())) }
gets := func() int { if s == nil { return tr.R(4, 0) }; return tr.R(4, len(s.(string))) }
YIELD(geta())
a, b := 2, 3
YIELD(geta() + b)
n := 7
YIELD(getp())
p, c := &n, 1
YIELD(getp() + c)
p, d := nil, 2
YIELD(getp() + d)
e, f := fmt.Errorf("abc"), 1
YIELD(gete() + f)
e, g := nil, 2
YIELD(gete() + g)
str := "hello"
s, h := str, 1
YIELD(gets() + h)
s, j := "hi", 2
YIELD(gets() + j)
type flag bool
var ok flag
getok := func() int { if ok { return tr.R(5, 1) }; return tr.R(5, 0) }
YIELD(getok())
ok, z := a < 5, 5
YIELD(getok() + z)
var sh uint8 = 1
getsh := func() int { return tr.R(6, int(sh)) }
YIELD(getsh())
sh, y := 1<<uint(z-3), 2
YIELD(getsh() + y)
ok, sh, q := !ok, sh+1, 3
YIELD(getok() + getsh() + q)
RETNIL`, "partial-redeclaration")),
		G("scope-partial-redeclaration-tuples-and-commaok", `
m := map[int]int{1: 10}
var x any = 5
ch := make(chan int, 1)
ch <- 4
v, ok := m[1]
get := func() int { if ok { return tr.R(1, v) }; return tr.R(1, -v-1) }
YIELD(get())
btoi := func(b bool) int { if b { return 1 }; return 0 }
v, ok2 := m[2]
YIELD(get() + btoi(ok2))
w, ok := x.(string)
YIELD(get() + len(w))
v, ok = 3, true
YIELD(get())
u, ok := <-ch
YIELD(get() + u)
v, z := pairOf(v)
YIELD(get() + z)
v, ok, y := 8, false, 1
YIELD(get() + y)
RETNIL`, "partial-redeclaration"),
		G("scope-partial-redeclaration-order-of-evaluation", `
a, b := 1, 2
get := func() int { return tr.R(1, a*10+b) }
YIELD(get())
a, c := 5, get()
YIELD(get() + c*1000)
b, a, d := a, b, get()
YIELD(get() + d*1000)
a, b, e := tr.V(2, 7), 9, tr.V(3, get())
YIELD(get() + e*1000)
RETNIL`, "partial-redeclaration"),
		G("scope-partial-redeclaration-in-case-and-loop", `
for i := 0; i < 2; i++ {
	a := i
	p := &a
	switch tr.N(1, 2) {
	case 0:
		t := 5
		q := &t
		YIELD(t)
		t, u := 6, 7
		YIELD(*q + u)
	default:
		var t2 = 9
		r := &t2
		YIELD(a)
		t2, w := 40, 2
		YIELD(*r + w)
	}
	if tr.B(2) {
		YIELD(a)
	}
	a, k := a+1, 3
	YIELD(*p + k)
}
RETNIL`, "partial-redeclaration"),
		withFmt(Raw("scope-partial-redeclaration-of-parameter", `
func §split(n int) (int, int) { return n / 10, n % 10 }
func §gen(a int, err error) ITER[int] GENP[int](a int, err error){
	get := func() int { if err != nil { return tr.R(1, -a) }; return tr.R(1, a) }
	q, a := §split(a)
	YIELD(q)
	YIELD(get())
	a, b := a+1, 2
	YIELD(get() + b)
	c, err := 3, fmt.Errorf("x")
	YIELD(get() + c)
	if tr.B(2) {
		YIELD(0)
	}
	a, d := a*2, 1
	YIELD(get() - d)
	RETNIL
}GENP
func §E() { drv.Run[int](func() drv.It[int] { it := §gen(42, nil); return it }) }
`, "partial-redeclaration", "redeclared-parameter")),
		Raw("scope-partial-redeclaration-of-receiver-and-named-parameter-pointer", `
type §acc struct{ n int }

func (r §acc) gen(step int) ITER[int] GENP[int](r §acc, step int){
	p := &r
	ps := &step
	YIELD(p.n + *ps)
	r, k := §acc{r.n + 10}, 1
	YIELD(p.n + k)
	step, j := step*2, 2
	YIELD(*ps + j)
	RETNIL
}GENP
func §E() { drv.Run[int](func() drv.It[int] { it := (§acc{5}).gen(3); return it }) }
`, "partial-redeclaration", "redeclared-parameter"),
		G("scope-partial-redeclaration-temporary-names-do-not-clash", `
a1, a, x := 1, 2, 3
get := func() int { return tr.R(1, a1*100+a*10+x) }
YIELD(get())
x, n1 := x+1, 1
tr.U(n1)
a1, n2 := a1+1, 2
tr.U(n2)
x, n3 := x+1, 3
tr.U(n3)
x, n4 := x+1, 4
tr.U(n4)
x, n5 := x+1, 5
tr.U(n5)
x, n6 := x+1, 6
tr.U(n6)
x, n7 := x+1, 7
tr.U(n7)
x, n8 := x+1, 8
tr.U(n8)
x, n9 := x+1, 9
tr.U(n9)
x, n10 := x+1, 10
tr.U(n10)
x, n11 := x+1, 11
tr.U(n11)
a, n12 := a+1, 12
tr.U(n12)
YIELD(get())
RETNIL`, "partial-redeclaration"),
		G("scope-partial-redeclaration-without-yield-between", `
YIELD(0)
a := 1
get := func() int { return tr.R(1, a) }
a, b := 2, 3
YIELD(get() + b)
{
	a, c := 4, 5
	YIELD(get() + a + c)
}
YIELD(get())
RETNIL`, "partial-redeclaration"),
		G("scope-cursor-shared-by-inner-loops-without-init", `
pos := 0
for page := 0; page < 3; page++ {
	for ; pos < (page+1)*3-page; pos++ {
		YIELD(page*100 + tr.R(1, pos))
	}
}
bump := func() { pos += 2 }
for round := 0; round < 3; round++ {
	for ; pos < 20+round*4; bump() {
		YIELD(tr.R(2, pos))
	}
}
k := 0
for tr.B(3) {
	for ; k%3 != 2; k++ {
		YIELD(k)
	}
	k++
}
YIELD(tr.R(4, pos) + k)
RETNIL`, "for:nip", "shadow"),
		G("scope-range-over-constant-loop-variable-is-per-iteration", `
var fs []func() int
for i := range 3 {
	fs = append(fs, func() int { return tr.R(1, i) })
	YIELD(i)
	i += 10
	YIELD(i)
}
for _, f := range fs {
	YIELD(f())
}
const n = 2
for j := range n {
	j *= 5
	YIELD(j)
}
for i := range 4 {
	if i == 1 {
		i++
	}
	YIELD(tr.R(2, i))
}
RETNIL`, "range:int-const", "shadow", "closure-capture-across-yield"),
		G("scope-body-redeclares-counter", `
for i := 0; i < 3; i++ {
	i := i * 10
	YIELD(i)
	i++
	YIELD(i)
}
RETNIL`, "shadow"),
		G("scope-switch-init-name-conflict", `
x := 1
switch x := x + 1; x {
case 2:
	YIELD(x)
	x := x * 10
	YIELD(x)
}
YIELD(x)
RETNIL`, "switch-init-decl", "shadow"),
		G("scope-typeswitch-binding", `
var v any = 5
switch v := v.(type) {
case int:
	YIELD(v + 1)
	v++
	YIELD(v)
case string:
	YIELD(len(v))
}
YIELD(v.(int))
RETNIL`, "typeswitch-binding"),
		G("scope-decl-before-and-after-yield", `
x := tr.V(1, 1)
if tr.B(2) {
	YIELD(x)
}
y := tr.V(3, x+1)
YIELD(y)
x, z := tr.V(4, y+1), tr.V(5, 7)
YIELD(x + z)
{
	x := x * 100
	YIELD(x)
}
YIELD(x)
RETNIL`, "shadow"),
		G("scope-closure-sees-later-updates", `
x := 1
get := func() int { return tr.R(1, x) }
inc := func() { x += 10 }
YIELD(get())
x = 2
YIELD(get())
inc()
YIELD(x)
inc()
YIELD(get())
RETNIL`, "closure-capture-across-yield"),
		G("scope-if-init-shadow", `
x := 3
if x := x * 2; x > 5 {
	YIELD(x)
	x++
	YIELD(x)
} else {
	YIELD(-x)
}
YIELD(x)
RETNIL`, "if-init-decl", "shadow"),
		G("scope-nested-loops-same-name", `
for i := 0; i < 2; i++ {
	YIELD(i)
	for i := 10; i < 12; i++ {
		YIELD(i)
	}
	YIELD(i + 100)
}
RETNIL`, "shadow"),
		G("scope-range-vars-shadow", `
v := 7
for i, v := range []int{1, 2} {
	YIELD(i*10 + v)
	v := v + 100
	YIELD(v)
}
YIELD(v)
for _, v = range []int{8, 9} {
	YIELD(v)
}
YIELD(v)
RETNIL`, "range-define", "range-assign", "shadow"),
		G("scope-sequential-and-nested-ranges", `
for _, a := range []int{1, 2} {
	for _, b := range []int{10, 20} {
		YIELD(a + b)
	}
}
for _, a := range []int{3} {
	YIELD(a)
}
RETNIL`, "range-define"),
		G("scope-var-declared-in-first-half-used-in-second", `
var x int
if tr.B(1) {
	YIELD(1)
	x = 5
}
var y = x + 1
YIELD(y)
for i := 0; i < 2; i++ {
	YIELD(x + i)
	x++
}
YIELD(x*100 + y)
RETNIL`),
		// §5.3: closures that outlive the iteration of a three-clause loop (Go 1.22 per-iteration variables)
		G("scope-loopvar-closure-escapes-3clause", `
var fs []func() int
for i := 0; i < 3; i++ {
	fs = append(fs, func() int { return i })
	YIELD(i)
}
for _, f := range fs {
	YIELD(f())
}
RETNIL`, "loopvar-escape"),
		G("scope-loopvar-closure-escapes-range", `
var fs []func() int
for _, v := range []int{1, 2, 3} {
	fs = append(fs, func() int { return v })
	YIELD(v)
}
for _, f := range fs {
	YIELD(f())
}
RETNIL`, "loopvar-escape-range"),
	}
}
