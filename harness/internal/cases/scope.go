package cases

import "covr/internal/e1"

// Scope returns the directed scoping cases (C03).
func Scope() []*e1.Program {
	return []*e1.Program{
		G("scope-for-post-reads-shadowed-name", `
a := 42
for cnt := 5; cnt > 0; YIELD(func() int {
	cnt--
	a++
	return a - 1
}()) {
	a := 100
	YIELD(a)
	a++
}
RETNIL`, "for-post-yield", "shadow"),
		G("scope-yielding-post-reads-name-shadowed-by-trivial-body", `
x := 1
for i := 0; i < 2; YIELD(x*100 + i) {
	i++
	x := 50
	tr.U(x)
}
YIELD(x)
RETNIL`, "for-post-yield", "shadow"),
		G("scope-partial-redeclaration-after-yield", `
a := 1
get := func() int { return tr.R(1, a) }
YIELD(a)
a, b := tr.V(2, 2), tr.V(3, 3)
YIELD(a*10 + b)
YIELD(get())
a, c := pairOf(a)
YIELD(a*100 + c)
YIELD(get())
if tr.B(4) {
	YIELD(0)
	a, d := 7, 8
	YIELD(a + d)
}
YIELD(get())
RETNIL`, "partial-redeclaration"),
		G("scope-body-redeclares-counter", `
for i := 0; i < 3; i++ {
	i := i * 10
	YIELD(i)
	i++
	YIELD(i)
}
RETNIL`, "shadow"),
		G("scope-switch-init-name-conflict", `
x := 1
switch x := x + 1; x {
case 2:
	YIELD(x)
	x := x * 10
	YIELD(x)
}
YIELD(x)
RETNIL`, "switch-init-decl", "shadow"),
		G("scope-typeswitch-binding", `
var v any = 5
switch v := v.(type) {
case int:
	YIELD(v + 1)
	v++
	YIELD(v)
case string:
	YIELD(len(v))
}
YIELD(v.(int))
RETNIL`, "typeswitch-binding"),
		G("scope-decl-before-and-after-yield", `
x := tr.V(1, 1)
if tr.B(2) {
	YIELD(x)
}
y := tr.V(3, x+1)
YIELD(y)
x, z := tr.V(4, y+1), tr.V(5, 7)
YIELD(x + z)
{
	x := x * 100
	YIELD(x)
}
YIELD(x)
RETNIL`, "shadow"),
		G("scope-closure-sees-later-updates", `
x := 1
get := func() int { return tr.R(1, x) }
inc := func() { x += 10 }
YIELD(get())
x = 2
YIELD(get())
inc()
YIELD(x)
inc()
YIELD(get())
RETNIL`, "closure-capture-across-yield"),
		G("scope-if-init-shadow", `
x := 3
if x := x * 2; x > 5 {
	YIELD(x)
	x++
	YIELD(x)
} else {
	YIELD(-x)
}
YIELD(x)
RETNIL`, "if-init-decl", "shadow"),
		G("scope-nested-loops-same-name", `
for i := 0; i < 2; i++ {
	YIELD(i)
	for i := 10; i < 12; i++ {
		YIELD(i)
	}
	YIELD(i + 100)
}
RETNIL`, "shadow"),
		G("scope-range-vars-shadow", `
v := 7
for i, v := range []int{1, 2} {
	YIELD(i*10 + v)
	v := v + 100
	YIELD(v)
}
YIELD(v)
for _, v = range []int{8, 9} {
	YIELD(v)
}
YIELD(v)
RETNIL`, "range-define", "range-assign", "shadow"),
		G("scope-sequential-and-nested-ranges", `
for _, a := range []int{1, 2} {
	for _, b := range []int{10, 20} {
		YIELD(a + b)
	}
}
for _, a := range []int{3} {
	YIELD(a)
}
RETNIL`, "range-define"),
		G("scope-var-declared-in-first-half-used-in-second", `
var x int
if tr.B(1) {
	YIELD(1)
	x = 5
}
var y = x + 1
YIELD(y)
for i := 0; i < 2; i++ {
	YIELD(x + i)
	x++
}
YIELD(x*100 + y)
RETNIL`),
		// §5.3: closures that outlive the iteration of a three-clause loop (Go 1.22 per-iteration variables)
		G("scope-loopvar-closure-escapes-3clause", `
var fs []func() int
for i := 0; i < 3; i++ {
	fs = append(fs, func() int { return i })
	YIELD(i)
}
for _, f := range fs {
	YIELD(f())
}
RETNIL`, "loopvar-escape"),
		G("scope-loopvar-closure-escapes-range", `
var fs []func() int
for _, v := range []int{1, 2, 3} {
	fs = append(fs, func() int { return v })
	YIELD(v)
}
for _, f := range fs {
	YIELD(f())
}
RETNIL`, "loopvar-escape-range"),
	}
}
