package cases

import (
	"fmt"
	"strings"

	"covr/internal/e1"
	"covr/internal/render"
)

// by builds a bystander program: plain declarations co-located with a tiny
// generator (so that the file is processed). Reference = the source package
// itself built natively (C13) and the stage-1 artefact (C07).
func by(name, decls string, features ...string) *e1.Program {
	p := Raw(name, decls+`
func §tiny() ITER[int] GEN[int]{
	YIELD(1)
	RETNIL
}GEN
var _ = §tiny
`, features...)
	p.Native = true
	return p
}

// Opt returns the optimiser / bystander directed cases (C07, C13, C11).
func Opt() []*e1.Program {
	// the file imports the seq runtime itself (plain dot import of the API, seq under its default name)
	withSeq := func(p *e1.Program) *e1.Program {
		p.Imports = append(p.Imports, "github.com/goghcrow/go-co/seq")
		p.Style = render.Dot
		return p
	}
	withImports := func(p *e1.Program, imps ...string) *e1.Program { p.Imports = append(p.Imports, imps...); return p }
	return []*e1.Program{
		withSeq(by("by-user-seq-code-delay-with-effectful-arguments", `
func §mk(tag int) seq.Seq[int] {
	tr.E(tag)
	return seq.Bind(tag, seq.Normal[int])
}
func §cond(n *int) func() bool {
	tr.E(50)
	return func() bool { *n++; return *n < 3 }
}
func §raw() seq.Iterator[int] {
	return seq.Start(seq.Delay(func() seq.Seq[int] {
		return seq.Combine(§mk(1), §mk(2))
	}))
}
func §E() {
	it := §raw()
	tr.E(100)
	for it.MoveNext() {
		tr.V(3, it.Current())
	}
	n := 0
	jt := seq.Start(seq.Delay(func() seq.Seq[int] {
		return seq.While(§cond(&n), seq.Delay(func() seq.Seq[int] { return §mk(10 + n) }))
	}))
	tr.E(101)
	for jt.MoveNext() {
		tr.V(4, jt.Current())
	}
	lazy := seq.Delay(func() seq.Seq[int] {
		return seq.Delay(func() seq.Seq[int] { return §mk(20) })
	})
	tr.E(102)
	kt := seq.Start(seq.Combine(lazy, lazy))
	for kt.MoveNext() {
		tr.V(5, kt.Current())
	}
}`, "user-seq-code")),
		withSeq(by("by-user-seq-code-delay-over-every-kind-of-argument", `
type §feed struct {
	src  seq.Iterator[int]
	more func() bool
	n    int
}

func (f *§feed) More() bool { f.n++; return tr.V(60, f.n) < 3 }

func §count(from, k int) seq.Iterator[int] {
	i := 0
	return seq.Start(seq.Delay(func() seq.Seq[int] {
		return seq.While(func() bool { i++; return i <= k }, seq.Delay(func() seq.Seq[int] { return seq.Bind(from+i, seq.Normal[int]) }))
	}))
}
func §pick(tag int, it seq.Iterator[int]) seq.Iterator[int] { tr.E(tag); return it }
func §drain(tag int, s seq.Seq[int]) {
	tr.E(tag)
	it := seq.Start(s)
	for k := 0; k < 6 && it.MoveNext(); k++ {
		tr.V(tag+1, it.Current())
	}
}
func §E() {
	// every Seq below is BUILT first, then the state its arguments read is changed, then it is run:
	// a Delay must keep the evaluation of the arguments of the call it returns until the Seq runs
	h := &§feed{src: §count(0, 2)}
	pull := seq.Delay(func() seq.Seq[int] {
		return seq.While(h.src.MoveNext, seq.Delay(func() seq.Seq[int] { return seq.Bind(h.src.Current(), seq.Normal[int]) }))
	})
	h.src = §count(10, 3)
	§drain(100, pull)

	var late seq.Iterator[int]
	viaNil := seq.Delay(func() seq.Seq[int] {
		return seq.While(late.MoveNext, seq.Delay(func() seq.Seq[int] { return seq.Bind(late.Current(), seq.Normal[int]) }))
	})
	late = §count(20, 2)
	§drain(110, viaNil)
	var never seq.Iterator[int]
	unused := seq.Delay(func() seq.Seq[int] { return seq.While(never.MoveNext, seq.Normal[int]()) })
	_ = unused
	tr.E(115)

	src := §count(30, 2)
	picked := seq.Delay(func() seq.Seq[int] {
		return seq.While(§pick(120, src).MoveNext, seq.Delay(func() seq.Seq[int] { return seq.Bind(src.Current(), seq.Normal[int]) }))
	})
	tr.E(121)
	§drain(122, picked)

	f := &§feed{}
	byMethod := seq.Delay(func() seq.Seq[int] { return seq.While(f.More, seq.Bind(1, seq.Normal[int])) })
	f = &§feed{n: 1}
	§drain(130, byMethod)

	cond := func() bool { return false }
	byVar := seq.Delay(func() seq.Seq[int] { return seq.While(cond, seq.Bind(2, seq.Normal[int])) })
	k := 0
	cond = func() bool { k++; return k < 3 }
	§drain(140, byVar)

	h2 := &§feed{more: func() bool { return false }}
	byField := seq.Delay(func() seq.Seq[int] { return seq.While(h2.more, seq.Bind(3, seq.Normal[int])) })
	j := 0
	h2.more = func() bool { j++; return j < 3 }
	§drain(150, byField)

	conds := []func() bool{func() bool { return false }}
	byIndex := seq.Delay(func() seq.Seq[int] { return seq.While(conds[0], seq.Bind(4, seq.Normal[int])) })
	m := 0
	conds[0] = func() bool { m++; return m < 2 }
	§drain(160, byIndex)

	v := 5
	xs := []int{7, 8}
	p := &v
	byValue := seq.Delay(func() seq.Seq[int] { return seq.Bind(v, seq.Normal[int]) })
	byArith := seq.Delay(func() seq.Seq[int] { return seq.Bind(v*2+1, seq.Normal[int]) })
	byElem := seq.Delay(func() seq.Seq[int] { return seq.Bind(xs[1], seq.Normal[int]) })
	byDeref := seq.Delay(func() seq.Seq[int] { return seq.Bind(*p, seq.Normal[int]) })
	byLit := seq.Delay(func() seq.Seq[int] { return seq.Bind(len([]int{v, v, v}[:v-4]), seq.Normal[int]) })
	byConv := seq.Delay(func() seq.Seq[int] { return seq.Bind(int(int8(v)), seq.Normal[int]) })
	byRet := seq.Delay(func() seq.Seq[int] { return seq.ReturnValue(v) })
	v, xs[1] = 6, 9
	w := 40
	p = &w
	§drain(170, seq.Combine(byValue, seq.Combine(byArith, seq.Combine(byElem, seq.Combine(byDeref, seq.Combine(byLit, byConv))))))
	rt := seq.Start(byRet).(seq.Generator[int])
	rt.MoveNext()
	tr.V(180, rt.Result())

	// a Bind continuation that forwards to a function VARIABLE / method value / field which changes between
	// building the Seq and running it
	nextStep := func() seq.Seq[int] { return seq.Bind(-1, seq.Normal[int]) }
	viaVar := seq.Bind(1, func() seq.Seq[int] { return nextStep() })
	hb := &§feed{}
	stepOf := func(f *§feed) func() seq.Seq[int] {
		return func() seq.Seq[int] { f.n++; return seq.Bind(f.n*7, seq.Normal[int]) }
	}
	steps := map[string]func() seq.Seq[int]{"k": stepOf(hb)}
	viaMap := seq.Bind(2, func() seq.Seq[int] { return steps["k"]() })
	nextStep = func() seq.Seq[int] { return seq.Bind(-2, seq.Normal[int]) }
	steps["k"] = func() seq.Seq[int] { return seq.Bind(-3, seq.Normal[int]) }
	§drain(185, seq.Combine(viaVar, viaMap))

	// the effectful argument sits one or two levels below the call the Delay returns
	c := 10
	yv := func(tag, x int) seq.Seq[int] { tr.V(tag, x); return seq.Bind(x, seq.Normal[int]) }
	deep1 := seq.Delay(func() seq.Seq[int] { return seq.Combine(seq.Combine(yv(190, c), yv(191, c+1)), seq.Normal[int]()) })
	deep2 := seq.Delay(func() seq.Seq[int] {
		return seq.Combine(seq.Delay(func() seq.Seq[int] { return yv(192, c+2) }), seq.Combine(seq.Combine(yv(193, c+3), seq.Normal[int]()), seq.Return[int]()))
	})
	loopy := seq.Delay(func() seq.Seq[int] { return seq.Loop(seq.Combine(yv(194, c+4), seq.Break[int]())) })
	whiley := seq.Delay(func() seq.Seq[int] {
		n := 0
		return seq.While(func() bool { n++; return n < 2 }, seq.Combine(yv(195, c+5), seq.Normal[int]()))
	})
	tr.E(196)
	c = 20
	§drain(197, seq.Combine(deep1, seq.Combine(loopy, whiley)))
	§drain(198, deep2)
}`, "user-seq-code")),
		withSeq(by("by-user-wrappers-of-generic-seq-functions-with-inferred-type-arguments", `
func §E() {
	loop := func(body seq.Seq[int]) seq.Seq[int] { return seq.Loop(body) }
	start := func(s seq.Seq[int]) seq.Iterator[int] { return seq.Start(s) }
	delay := func(f func() seq.Seq[int]) seq.Seq[int] { return seq.Delay(f) }
	bind := func(v int, f func() seq.Seq[int]) seq.Seq[int] { return seq.Bind(v, f) }
	both := func(a, b seq.Seq[int]) seq.Seq[int] { return seq.Combine(a, b) }
	explicit := func(s seq.Seq[int]) seq.Iterator[int] { return seq.Start[int](s) }
	n := 0
	it := start(loop(delay(func() seq.Seq[int] {
		n++
		if n > 3 {
			return seq.Break[int]()
		}
		return both(bind(n, seq.Normal[int]), bind(-n, seq.Normal[int]))
	})))
	for it.MoveNext() {
		tr.V(1, it.Current())
	}
	jt := explicit(bind(7, seq.Normal[int]))
	tr.V(2, jt.MoveNext())
	tr.V(3, jt.Current())
}`, "user-seq-code", "eta:generic-inferred")),
		withImports(by("by-wrappers-of-call-depth-sensitive-standard-functions", `
func §E() {
	caller := func(skip int) (uintptr, string, int, bool) { return runtime.Caller(skip) }
	callers := func(skip int, pcs []uintptr) int { return runtime.Callers(skip, pcs) }
	upper := func(s string) string { return strings.ToUpper(s) }
	pc, _, _, ok := caller(0)
	name := runtime.FuncForPC(pc).Name()
	// frame 0 of runtime.Caller called through the wrapper is the wrapper literal itself
	tr.V(1, ok && strings.Contains(name[strings.LastIndex(name, "/")+1:], "func"))
	pcs := make([]uintptr, 8)
	n := callers(0, pcs)
	frames := runtime.CallersFrames(pcs[:n])
	f0, _ := frames.Next()
	f1, _ := frames.Next()
	tr.V(2, strings.HasSuffix(f0.Function, "runtime.Callers"))
	tr.V(3, strings.Contains(f1.Function[strings.LastIndex(f1.Function, "/")+1:], "func"))
	tr.V(4, upper("abc"))
}`, "eta:stdlib"), "runtime", "strings"),
		withImports(Raw("by-import-used-only-in-dead-code-of-a-generator", `
func §gen() ITER[int] GEN[int]{
	for {
		YIELD(1)
		break
		println(sha256.Size)
	}
	RETNIL
}GEN
func §E() {
	// crypto/sha256 registers itself in its init: the bystander sees it only while the import is there
	tr.V(1, crypto.SHA256.Available())
	it := §gen()
	tr.V(2, it.MoveNext())
}
`, "import-only-in-dead-code"), "crypto", "crypto/sha256"),
		by("by-eta-funcvar-reassigned", `
func §E() {
	f := func(x int) int { tr.E(1); return x + 1 }
	g := func(x int) int { return f(x) }
	f = func(x int) int { tr.E(2); return x * 10 }
	tr.V(3, g(5))
}`, "eta:funcvar"),
		by("by-eta-method-value-reassigned-receiver", `
type §T struct{ v int }

func (t *§T) Get() int { return tr.V(1, t.v) }
func §E() {
	s := &§T{1}
	g := func() int { return s.Get() }
	s = &§T{2}
	tr.V(2, g())
}`, "eta:method-value"),
		by("by-eta-method-value-nil-receiver-at-creation", `
type §T struct{ v int }

func (t §T) Get() int { return tr.V(1, t.v) }
func §E() {
	var s *§T
	g := func() int { return s.Get() }
	s = &§T{3}
	tr.V(2, g())
}`, "eta:method-value"),
		by("by-eta-value-receiver-mutated-later", `
type §T struct{ v int }

func (t §T) Val() int { return t.v }
func §E() {
	s := §T{1}
	g := func() int { return s.Val() }
	s.v = 9
	tr.V(1, g())
}`, "eta:method-value"),
		by("by-eta-builtin-len", `
func §E() {
	f := func(s []int) int { return len(s) }
	tr.V(1, f([]int{1, 2, 3}))
}`, "eta:builtin"),
		by("by-eta-conversion", `
type §Celsius float64

func §E() {
	f := func(x float64) §Celsius { return §Celsius(x) }
	tr.V(1, float64(f(1.5)))
}`, "eta:conversion"),
		by("by-eta-generic-callee", `
func §id[T any](x T) T { return x }
func §E() {
	f := func(x int) int { return §id(x) }
	tr.V(1, f(4))
}`, "eta:generic"),
		by("by-eta-variadic-fixed-arity", `
func §sum(xs ...int) int {
	t := 0
	for _, x := range xs {
		t += x
	}
	return t
}
func §apply(f func(int, int) int) int { return f(3, 4) }
func §E() {
	tr.V(1, §apply(func(a, b int) int { return §sum(a, b) }))
}`, "eta:variadic"),
		by("by-eta-interface-widening-result", `
type §I interface{ M() int }
type §T struct{ v int }

func (t *§T) M() int { return t.v }
func §mk() *§T   { return &§T{7} }
func §E() {
	var f func() §I = func() §I { return §mk() }
	tr.V(1, f().M())
}`, "eta:widening"),
		by("by-eta-call-result-callee", `
func §mk2() func() int {
	tr.E(1)
	return func() int { tr.E(2); return 5 }
}
func §E() {
	g := func() int { return §mk2()() }
	tr.E(3)
	tr.V(4, g())
	tr.V(5, g())
}`, "eta:call-result"),
		by("by-eta-indexed-callee", `
func §E() {
	fs := []func() int{func() int { return 1 }, func() int { return 2 }}
	i := 0
	g := func() int { return fs[i]() }
	i = 1
	tr.V(1, g())
}`, "eta:indexed"),
		by("by-eta-package-level-funcvar", `
var §step = func(x int) int { return x + 1 }

func §apply(f func(int) int, x int) int { return f(x) }
func §E() {
	g := func(x int) int { return §step(x) }
	§step = func(x int) int { return x + 100 }
	tr.V(1, g(1))
	tr.V(2, §apply(g, 2))
}`, "eta:funcvar"),
		by("by-eta-partially-instantiated-generic", `
func §pick[T any, S any](x S) T {
	var z T
	tr.U(x)
	return z
}
func §E() {
	f := func(x int) float64 { return §pick[float64](x) }
	tr.V(1, int(f(3)))
}`, "eta:generic"),
		by("by-eta-stable-package-func", `
func §double(x int) int { return 2 * x }
func §E() {
	f := func(x int) int { return §double(x) }
	tr.V(1, f(21))
}`, "eta:stable"),
		func() *e1.Program {
			p := Raw("by-embed-directive-next-to-generator-literal", `
//go:embed §data.txt
var §blob string

// §lit is a generator written as a function literal
var §lit = func() ITER[int] GEN[int]{
	YIELD(1)
	RETNIL
}GEN

//go:noinline
func §size() int { return len(§blob) }
func §E() {
	tr.V(1, §size())
	tr.V(2, §blob)
}
`, "directive:embed")
			p.Native = true
			p.Imports = []string{"_embed"}
			p.Files = map[string]string{"§data.txt": "hello embed\n"}
			return p
		}(),
		func() *e1.Program {
			p := Raw("by-embed-directive-in-grouped-var-block", `
var (
	//go:embed §data.txt
	§banner string

	// §plain has an ordinary doc comment
	§plain = 3
)

var §lit = func() ITER[int] GEN[int]{
	YIELD(1)
	RETNIL
}GEN

func §E() {
	tr.V(1, §banner)
	tr.V(2, §plain)
}
`, "directive:embed")
			p.Native = true
			p.Imports = []string{"_embed"}
			p.Files = map[string]string{"§data.txt": "grouped\n"}
			return p
		}(),
		by("by-const-init-methods", `
const §K = 3

var §table = map[string]int{"a": §K, "b": §K * 2}

type §P struct{ x, y int }

func (p §P) Add(q §P) §P { return §P{p.x + q.x, p.y + q.y} }
func (p *§P) Scale(k int) { p.x *= k; p.y *= k }
func §E() {
	p := §P{1, 2}.Add(§P{3, 4})
	p.Scale(§K)
	tr.V(1, p.x*100+p.y)
	tr.V(2, §table["b"])
	defer func() { tr.V(3, recover()) }()
	var m map[string]int
	m["x"] = 1
}`, "plain"),
	}
}

// OptGen returns eta/Delay cases inside generator bodies (compared with the
// reference coroutine and stage-1 vs final).
func OptGen() []*e1.Program {
	return append(optGenDirected(), Nest()...)
}

func optGenDirected() []*e1.Program {
	alone := func(p *e1.Program, imps ...string) *e1.Program {
		p.Isolate = true
		p.Imports = imps
		p.Style = render.Dot
		return p
	}
	return []*e1.Program{
		// one import PATH under two names, one of which loses its only use to dead code the rewriter drops
		// (a file of its own: no other declaration may use the names)
		alone(G("opt-import-under-two-names-one-only-used-by-dead-code", `
for i := 0; i < 2; i++ {
	YIELD(len(strings.Repeat("x", i)))
	continue
	tr.U(str.ToUpper("dead"))
}
RETNIL`, "imports", "import-two-names-one-dead"), "strings", "str strings"),
		alone(G("opt-dot-import-only-used-by-dead-code", `
for i := 0; i < 2; i++ {
	YIELD(i)
	continue
	tr.U(SearchInts([]int{1, 2}, 2))
}
RETNIL`, "imports"), ". sort"),
		alone(G("opt-seq-import-of-the-user-only-used-by-dead-code", `
for i := 0; i < 2; i++ {
	YIELD(i)
	continue
	tr.U(seq.Normal[int])
}
RETNIL`, "imports", "import-two-names-one-dead"), "github.com/goghcrow/go-co/seq"),
		Raw("opt-user-pull-loop-over-reassigned-iterator", `
func §src(base, n int) ITER[int] GEN[int]{
	for i := 0; i < n; i++ {
		tr.E(base + i)
		YIELD(base + i)
	}
	RETNIL
}GEN
func §gen() ITER[int] GEN[int]{
	it, other := §src(0, 3), §src(100, 3)
	for it.MoveNext() {
		YIELD(it.Current())
		it, other = other, it
	}
	// a pull loop that is the only statement of its continuation (behind a yielding if)
	jt := §src(10, 2)
	if tr.B(1) {
		YIELD(-1)
		jt = §src(20, 3)
	}
	for jt.MoveNext() {
		YIELD(jt.Current())
	}
	// fallback iterator
	kt := §src(30, 1)
	n := 0
	for kt.MoveNext() {
		YIELD(kt.Current())
		if n == 0 {
			kt = §src(40, 2)
		}
		n++
	}
	var lt ITER[int] = §src(50, 2)
	more := func() bool { return lt.MoveNext() }
	cur := func() int { return lt.Current() }
	for more() {
		YIELD(cur())
		lt = §src(60, 1)
	}
	RETNIL
}GEN
`+StdEntry, "eta:method-value", "pull-loop"),
		Raw("opt-yield-of-conversions-and-one-literal-calls", `
var §ticket = 100

type §dur int64

func §next(step int) int { §ticket += step; return tr.V(1, §ticket) }
func §name(n int) string { return tr.V(2, "n") + string(rune('a'+n)) }
func §gen() ITER[int] GEN[int]{
	§ticket = 100
	for i := 0; i < 2; i++ {
		YIELD(§next(1))
	}
	for i := 0; i < 2; i++ {
		YIELD(int(§dur(3)))
	}
	for i := 0; i < 2; i++ {
		YIELD(len(§name(1)))
	}
	if tr.B(3) {
		YIELD(§next(5))
	} else {
		YIELD(int(int64(7)))
	}
	for tr.B(4) {
		YIELD(-§next(2))
	}
	RETNIL
}GEN
`+StdEntry, "delay:literal-call"),
		Raw("opt-map-range-in-plain-closure-deleting-unvisited-entries", `
func §gen() ITER[int] GEN[int]{
	canonical := func(m map[string]int) (n int) {
		for k := range m {
			n++
			for other := range m {
				if other != k {
					delete(m, other)
				}
			}
		}
		return n
	}
	YIELD(canonical(map[string]int{"a": 1, "b": 2, "c": 3}))
	visits := 0
	m := map[int]int{1: 1, 2: 2, 3: 3, 4: 4}
	for k := range m {
		visits++
		for j := 1; j <= 4; j++ {
			if j != k {
				delete(m, j)
			}
		}
		YIELD(len(m))
	}
	YIELD(visits)
	RETNIL
}GEN
`+StdEntry, "range:map", "closure:map-delete"),
		Raw("opt-loop-cond-method-value", `
type §node struct {
	v    int
	next *§node
}

func (n *§node) Has() bool { return n != nil }
func §gen() ITER[int] GEN[int]{
	n := &§node{1, &§node{2, &§node{3, nil}}}
	for n.Has() {
		YIELD(n.v)
		n = n.next
	}
	RETNIL
}GEN
`+StdEntry, "eta:method-value", "for:cond"),
		Raw("opt-loop-cond-funcvar", `
func §gen() ITER[int] GEN[int]{
	i := 0
	more := func() bool { return i < 3 }
	for more() {
		YIELD(i)
		i++
		if i == 2 {
			more = func() bool { return false }
		}
	}
	RETNIL
}GEN
`+StdEntry, "eta:funcvar", "for:cond"),
		Raw("opt-yield-call-of-funcvar", `
func §gen() ITER[int] GEN[int]{
	f := func() int { return 1 }
	g := func() int { return f() }
	YIELD(g())
	f = func() int { return 2 }
	YIELD(g())
	RETNIL
}GEN
`+StdEntry, "eta:funcvar"),
		Raw("opt-package-level-funcvar-wrapper-passed-to-generator", `
var §step = func(x int) int { return x + 1 }

func §walk(n int, next func(int) int) ITER[int] GEN[int]{
	x := 0
	for i := 0; i < n; i++ {
		YIELD(x)
		x = next(x)
	}
	RETNIL
}GEN
func §E() {
	§step = func(x int) int { return x + 1 }
	it := §walk(4, func(x int) int { return §step(x) })
	tr.V(1, it.MoveNext())
	tr.V(2, it.Current())
	tr.V(3, it.MoveNext())
	tr.V(4, it.Current())
	§step = func(x int) int { return x + 100 }
	for it.MoveNext() {
		tr.V(5, it.Current())
	}
}
`, "eta:funcvar"),
		Raw("opt-plain-closure-with-three-clause-loop-capturing-variable", `
func §gen() ITER[int] GEN[int]{
	squares := func(n int) []func() int {
		var fs []func() int
		for i := 0; i < n; i++ {
			fs = append(fs, func() int { return i * i })
		}
		return fs
	}
	YIELD(-1)
	for _, f := range squares(4) {
		YIELD(f())
	}
	RETNIL
}GEN
`+StdEntry, "closure:loopvar"),
		Raw("opt-plain-closure-with-labelled-loop-switch-init-and-defer", `
func §gen() ITER[int] GEN[int]{
	count := func(limit int) (n int) {
		defer func() { n += 1000 }()
	outer:
		for a := 0; a < 4; a++ {
			for b := 0; b < 4; b++ {
				switch s := a * b; {
				case s > limit:
					break outer
				case s == 2:
					continue outer
				}
				n++
			}
		}
		return n
	}
	YIELD(count(3))
	YIELD(count(100))
	RETNIL
}GEN
`+StdEntry, "closure:labels"),
		Raw("opt-plain-closure-with-native-left-range-and-break", `
func §gen() ITER[int] GEN[int]{
	arr := [5]int{3, 4, -1, 6, 7}
	window := func(from int) any {
		sum := 0
		for i, v := range &arr {
			if i < from {
				continue
			}
			if v < 0 {
				break
			}
			sum += v
		}
		return sum
	}
	sq := func(yield func(int) bool) {
		for i := 0; i < 5; i++ {
			if !yield(i) {
				return
			}
		}
	}
	count := func() (n int) {
		for v := range sq {
			if v == 3 {
				break
			}
			n++
		}
		return
	}
	YIELD(window(0).(int))
	YIELD(window(1).(int))
	YIELD(count())
	RETNIL
}GEN
`+StdEntry, "closure:native-range"),
		Raw("opt-closure-get-after-yield", `
type §box struct{ v int }

func (b *§box) Get() int { return tr.V(1, b.v) }
func §gen() ITER[int] GEN[int]{
	s := &§box{1}
	get := func() int { return s.Get() }
	YIELD(get())
	s = &§box{2}
	YIELD(get())
	RETNIL
}GEN
`+StdEntry, "eta:method-value"),
	}
}

// Nest returns generators and ordinary closures nested into each other in every order up to depth 4 (the outermost
// function is a generator). Every ordinary closure returns a value through an interface result, owns a three-clause
// loop whose variable is captured per iteration and a switch with a ':=' initialiser AFTER its nested literal; every
// generator literal yields, delegates to / ranges over its child and ends with `return nil`.
func Nest() []*e1.Program {
	var out []*e1.Program
	var shapes []string
	var rec func(s string)
	rec = func(s string) {
		if len(s) >= 2 {
			shapes = append(shapes, s)
		}
		if len(s) == 4 {
			return
		}
		rec(s + "G")
		rec(s + "P")
	}
	rec("G")
	var body func(shape string, d int) string
	body = func(shape string, d int) string {
		var b strings.Builder
		tab := strings.Repeat("\t", d+1)
		line := func(format string, a ...any) {
			b.WriteString(tab)
			fmt.Fprintf(&b, format, a...)
			b.WriteByte('\n')
		}
		kind := shape[d]
		hasChild := d+1 < len(shape)
		if hasChild {
			if shape[d+1] == 'G' {
				line("child := func(n int) ITER[int] GEN[int]{")
			} else {
				line("child := func(n int) any {")
			}
			b.WriteString(body(shape, d+1))
			if shape[d+1] == 'G' {
				line("}GEN")
			} else {
				line("}")
			}
		}
		if kind == 'G' {
			line("tr.E(%d)", d*10+1)
			line("YIELD(n*1000 + %d)", d)
			if hasChild {
				if shape[d+1] == 'G' {
					line("YFROM(child(n + 1))")
					line("for v := range OVER<<child(n + 2)>>OVER {")
					line("\tYIELD(-v)")
					line("}")
				} else {
					line("YIELD(child(n + 1).(int))")
				}
			}
			line("for i := 0; i < 2; i++ {")
			line("\tYIELD(%d + i)", d*100)
			line("}")
			line("if tr.B(%d) {", d*10+2)
			line("\tRETNIL")
			line("}")
			line("YIELD(%d)", d*100+9)
			line("RETNIL")
		} else {
			line("total := n")
			if hasChild {
				if shape[d+1] == 'G' {
					line("for it := child(n + 1); it.MoveNext(); {")
					line("\ttotal += it.Current()")
					line("}")
				} else {
					line("total += child(n + 1).(int)")
				}
			}
			line("var fs []func() int")
			line("for i := 0; i < 3; i++ {")
			line("\tfs = append(fs, func() int { return i*10 + n })")
			line("}")
			line("switch k := total %% 3; k {")
			line("case 0, 1:")
			line("\ttotal += k + 1")
			line("}")
			line("for _, f := range fs {")
			line("\ttotal += f()")
			line("}")
			line("if tr.B(%d) {", d*10+3)
			line("\treturn total + 1")
			line("}")
			line("return tr.V(%d, total)", d*10+4)
		}
		return b.String()
	}
	for _, sh := range shapes {
		text := "func §gen(n int) ITER[int] GEN[int]{\n" + body(sh, 0) + "}GEN\n" +
			"func §E() { drv.Run[int](func() drv.It[int] { it := §gen(1); return it }) }\n"
		p := Raw("nest-"+sh, text, "nest:"+sh)
		p.MaxPaths = 24
		out = append(out, p)
	}
	return out
}
