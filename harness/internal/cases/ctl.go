package cases

import "covr/internal/e1"

// Ctl returns the directed control-flow cases (C01), including every shape
// named in the property and the shapes found by the design probes.
func Ctl() []*e1.Program {
	return []*e1.Program{
		G("yield123", `
YIELD(1)
YIELD(2)
YIELD(3)
RETNIL`),
		G("ctl-control-statement-directly-behind-a-yielding-statement", `
for i := 0; i < 3; i++ {
	if tr.B(1) {
		YIELD(i)
	}
	break
}
for i := 0; i < 3; i++ {
	switch tr.N(2, 2) {
	case 0:
		YIELD(10 + i)
	}
	continue
}
for i := 0; i < 2; i++ {
	if tr.B(3) {
		YIELD(20 + i)
	}
	;
}
for {
	{
		YIELD(30)
	}
	break
}
n := 0
for n < 3 {
	n++
	for j := 0; j < 2; j++ {
		YIELD(40 + j)
	}
	if n < 2 {
		continue
	}
	break
}
for k := range 2 {
	if tr.B(4) {
		YIELD(50 + k)
	} else {
		tr.E(5)
	}
	continue
}
YIELD(99)
RETNIL`, "for", "break", "continue"),
		G("if-else-tape", `
if tr.B(1) {
	YIELD(1)
} else if tr.B(2) {
	YIELD(2)
	tr.E(3)
} else {
	tr.E(4)
}
YIELD(9)
RETNIL`, "if"),
		G("for-three-clause", `
for i := 0; i < 3; i++ {
	if tr.B(1) {
		continue
	}
	YIELD(i)
	if tr.B(2) {
		break
	}
}
YIELD(99)
RETNIL`, "for", "break", "continue"),
		G("break-after-yield-in-case", `
x := tr.N(1, 3)
switch x {
case 1:
	YIELD(1)
	break
case 2:
	YIELD(2)
}
YIELD(9)
RETNIL`, "switch", "break-targets-yielding-switch"),
		G("continue-yielding-post", `
n := 0
for i := 0; i < 3; YIELD(100 + i) {
	i++
	if tr.B(1) {
		continue
	}
	n++
	YIELD(n)
}
RETNIL`, "for", "continue-in-loop-with-yielding-post"),
		G("tagless-switch-yield", `
x := tr.N(1, 4)
switch {
case x > 1:
	YIELD(1)
case x == 1:
	tr.E(2)
default:
	YIELD(3)
}
YIELD(9)
RETNIL`, "switch", "tagless-switch"),
		G("fib-prefix", `
a, b := 1, 1
for {
	YIELD(b)
	a, b = b, a+b
}`, "for", "infinite"),
	}
}
