package cases

import (
	"sort"
	"strings"

	"covr/internal/e1"
)

// Accept returns the directed acceptance cases (C11): supported-subset shapes
// that the golden corpus does not contain (each also runs through the trace
// comparison, so a "fix" that accepts but mistranslates is caught by C01).
func Accept() []*e1.Program {
	return append(acceptFixed(), trailingNativeLoops()...)
}

// trailingNativeLoops: a yield-free condition-less `for` that is the LAST statement of a block which
// becomes a thunk body, with its only exit at every position the termination checker has to look at.
func trailingNativeLoops() []*e1.Program {
	exits := map[string]string{
		"if":            "if n > 2 {\n\tbreak\n}",
		"else":          "if n < 3 {\n\ttr.E(9)\n} else {\n\tbreak\n}",
		"else-if":       "if n == 1 {\n\ttr.E(8)\n} else if n > 2 {\n\tbreak\n}",
		"second-else-if": "if n == 1 {\n\ttr.E(8)\n} else if n == 2 {\n\ttr.E(7)\n} else if n > 2 {\n\tbreak\n}",
		"else-of-else-if": "if n == 1 {\n\ttr.E(8)\n} else if n == 2 {\n\ttr.E(7)\n} else {\n\tbreak\n}",
		"block":         "{\n\tif n > 2 {\n\t\tbreak\n\t}\n}",
		"nested-if":     "if n > 1 {\n\tif n > 2 {\n\t\tbreak\n\t}\n\ttr.E(6)\n}",
		"return":        "if n > 2 {\n\tRETNIL\n}",
		"switch-then-if": "switch n {\ncase 1:\n\ttr.E(5)\n\tbreak\n}\nif n > 2 {\n\tbreak\n}",
	}
	ctxs := map[string]string{
		"in-if":     "if tr.B(1) {\n\tYIELD(1)\n@\n}\nYIELD(9)\nRETNIL",
		"in-case":   "switch tr.N(1, 2) {\ncase 0:\n\tYIELD(1)\n@\n}\nYIELD(9)\nRETNIL",
		"in-loop":   "for i := 0; i < 2; i++ {\n\tYIELD(i)\n@\n}\nYIELD(9)\nRETNIL",
		"in-else":   "if tr.B(1) {\n\ttr.E(2)\n} else {\n\tYIELD(1)\n@\n}\nYIELD(9)\nRETNIL",
		"at-top":    "YIELD(1)\n@\nYIELD(9)\nRETNIL",
	}
	var names, cnames []string
	for k := range exits {
		names = append(names, k)
	}
	for k := range ctxs {
		cnames = append(cnames, k)
	}
	sort.Strings(names)
	sort.Strings(cnames)
	var out []*e1.Program
	for _, cn := range cnames {
		for _, en := range names {
			loop := "n := 0\nfor {\n\tn++\n\ttr.E(n)\n" + indent(exits[en]) + "}"
			body := strings.Replace(ctxs[cn], "@", strings.TrimRight(indent(loop), "\n"), 1)
			if cn == "at-top" {
				body = strings.Replace(ctxs[cn], "@", loop, 1)
			}
			out = append(out, G("acc-trailing-native-loop-exit-in-"+en+"-"+cn, body, "native-loop-after-yield-or-nested"))
		}
	}
	return out
}

func acceptFixed() []*e1.Program {
	return []*e1.Program{
		G("acc-loop-condition-of-defined-bool-type", `
type flag bool
var more flag = true
n := 0
for more {
	YIELD(n)
	n++
	more = n < 3
}
for i := 0; flag(i < 2); i++ {
	YIELD(10 + i)
}
ok := flag(true)
for ; ok; ok = !ok {
	YIELD(20)
}
RETNIL`, "for:cond-defined-bool"),
		G("acc-break-in-trailing-native-for", `
if tr.B(1) {
	YIELD(1)
	for {
		tr.E(2)
		if tr.B(3) {
			break
		}
	}
}
YIELD(9)
RETNIL`, "native-loop-after-yield-or-nested", "break-in-native-loop"),
		G("acc-break-in-trailing-native-switch", `
if tr.B(1) {
	YIELD(1)
	switch tr.N(2, 2) {
	case 0:
		tr.E(3)
		break
	default:
		tr.E(4)
	}
}
YIELD(9)
RETNIL`, "break-in-switch"),
		G("acc-tagless-switch-yield", `
x := tr.N(1, 4)
switch {
case x > 1:
	YIELD(1)
case x == 1:
	tr.E(2)
default:
	YIELD(3)
}
YIELD(9)
RETNIL`, "switch:tagless"),
		G("acc-case-ends-in-yielding-if", `
switch tr.N(1, 3) {
case 1:
	tr.E(2)
	if tr.B(3) {
		YIELD(2)
	}
case 2:
	if tr.B(4) {
		YIELD(3)
	} else {
		tr.E(5)
	}
}
YIELD(9)
RETNIL`, "yielding-if-last-in-case"),
		G("acc-yielding-switch-ends-loop-body", `
for i := 0; i < 3; i++ {
	tr.E(1)
	switch i {
	case 1:
		YIELD(1)
	}
}
YIELD(9)
RETNIL`, "yielding-switch-ends-loop-body"),
		G("acc-yielding-typeswitch-ends-loop-body", `
for i := 0; i < 3; i++ {
	switch v := tr.Any(1, 3).(type) {
	case int:
		YIELD(v)
	case string:
		tr.E(2)
	}
}
RETNIL`, "yielding-switch-ends-loop-body", "switch:type"),
		G("acc-yielding-switch-ends-infinite-loop", `
n := 0
for {
	n++
	switch {
	case n > 3:
		RETNIL
	case n == 2:
		YIELD(n)
	}
}`, "yielding-switch-ends-loop-body", "for:inf"),
		G("acc-three-clause-loop-without-condition", `
for i := 0; ; i++ {
	if i == 3 {
		break
	}
	YIELD(i)
}
for j := 0; ; j += 2 {
	YIELD(j)
	if j > 2 {
		RETNIL
	}
}`, "for:3cn"),
		Raw("acc-switch-with-yieldfrom-init-and-yield-free-cases", `
func §two(base int) ITER[int] GEN[int]{
	YIELD(base + 1)
	YIELD(base + 2)
	RETNIL
}GEN
func §gen() ITER[int] GEN[int]{
	YIELD(1)
	switch YFROM(§two(10)); tr.N(1, 2) {
	case 0:
		tr.E(2)
	default:
		tr.E(3)
	}
	for YFROM(§two(20)); tr.B(4); tr.E(5) {
		tr.E(6)
	}
	switch YFROM(§two(30)); x := tr.Any(7, 2).(type) {
	case int:
		tr.U(x)
	}
	YIELD(9)
	RETNIL
}GEN
`+StdEntry, "init:yfrom"),
		G("acc-named-result-bare-return", `
YIELD(1)
if tr.B(1) {
	RETNIL
}
YIELD(2)
RETNIL`),
	}
}
