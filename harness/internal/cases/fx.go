package cases

import "covr/internal/e1"

// Fx returns the directed effect / laziness cases (C02).
func Fx() []*e1.Program {
	return append(fxDirected(), fxAllocations()...)
}

// fxAllocations: yields of composite literals (pointers, slices, maps, defined slice / map types, struct values) as the
// only statement of a thunk: every step must evaluate the literal again (a fresh object per step). The consumer
// mutates what it received and checks identity between steps.
func fxAllocations() []*e1.Program {
	return []*e1.Program{
		Raw("fx-composite-literal-yields-allocate-per-step", `
type §msg struct{ Seq, Len int }
type §row []int
type §dict map[string]int

func §msgs(n int) ITER[*§msg] GEN[*§msg]{
	for i := 0; i < n; i++ {
		YIELD(&§msg{Seq: 1})
	}
	RETNIL
}GEN
func §rows(n int) ITER[§row] GEN[§row]{
	for i := 0; i < n; i++ {
		YIELD(§row{0, 0})
	}
	if n > 5 {
		YIELD(§row{9})
	} else {
		YIELD(§row{7, 7})
	}
	RETNIL
}GEN
func §slices(n int) ITER[[]int] GEN[[]int]{
	for range n {
		YIELD([]int{1, 2})
	}
	RETNIL
}GEN
func §dicts(n int) ITER[§dict] GEN[§dict]{
	for i := 0; i < n; i++ {
		YIELD(§dict{"k": 1})
	}
	RETNIL
}GEN
func §maps(n int) ITER[map[int]int] GEN[map[int]int]{
	for i := 0; i < n; i++ {
		YIELD(map[int]int{1: 1})
	}
	RETNIL
}GEN
func §structs(n int) ITER[§msg] GEN[§msg]{
	for i := 0; i < n; i++ {
		YIELD(§msg{2, 3})
	}
	RETNIL
}GEN
func §E() {
	var prev *§msg
	for it := §msgs(3); it.MoveNext(); {
		m := it.Current()
		tr.V(1, m == prev)
		m.Seq += 5
		tr.V(2, m.Seq)
		prev = m
	}
	for it := §rows(3); it.MoveNext(); {
		r := it.Current()
		r[0]++
		tr.V(3, r[0]*10+len(r))
	}
	var keep [][]int
	for it := §slices(3); it.MoveNext(); {
		s := it.Current()
		s[1] += len(keep)
		keep = append(keep, s)
	}
	for _, s := range keep {
		tr.V(4, s[1])
	}
	for it := §dicts(3); it.MoveNext(); {
		d := it.Current()
		d["k"]++
		tr.V(5, d["k"])
	}
	for it := §maps(2); it.MoveNext(); {
		m := it.Current()
		m[1] += 10
		m[2] = 1
		tr.V(6, m[1]+len(m))
	}
	for it := §structs(2); it.MoveNext(); {
		v := it.Current()
		v.Seq++
		tr.V(7, v.Seq+v.Len)
	}
}
`, "yield:composite-literal"),
	}
}

func fxDirected() []*e1.Program {
	return []*e1.Program{
		G("fx-fibonacci", `
a, b := 1, 1
for {
	tr.E(1)
	YIELD(b)
	a, b = b, tr.V(2, a+b)
}`, "yield:var", "for:inf"),
		G("fx-var-mutated-after-yield", `
x := tr.V(1, 5)
YIELD(x)
x = tr.V(2, x+1)
YIELD(x)
x = tr.V(3, x*2)
YIELD(x + 1)
tr.E(4)
RETNIL`, "yield:var"),
		G("fx-effects-between-yields", `
tr.E(1)
YIELD(tr.V(2, 10))
tr.E(3)
tr.E(4)
YIELD(tr.V(5, 20))
tr.E(6)
RETNIL`),
		G("fx-literal-yields-in-loop", `
i := 0
for i < 3 {
	tr.E(1)
	YIELD(7)
	i++
	tr.E(2)
}
YIELD(8)
RETNIL`, "yield:lit"),
		G("fx-combine-second-half-lazy", `
if tr.B(1) {
	YIELD(tr.V(2, 1))
}
tr.E(3)
x := tr.V(4, 2)
YIELD(x)
for i := 0; i < 2; i++ {
	tr.E(5)
}
tr.E(6)
YIELD(tr.V(7, 3))
RETNIL`),
		G("fx-yield-first-statement-of-loop", `
n := tr.V(1, 0)
for n < 3 {
	YIELD(n)
	n = tr.V(2, n+1)
}
tr.E(3)
RETNIL`, "yield:var"),
		G("fx-nothing-before-first-movenext", `
tr.E(1)
x := tr.V(2, 1)
tr.E(3)
YIELD(x)
RETNIL`),
		G("fx-closure-value-yield", `
x := 1
get := func() int { tr.E(1); return x }
YIELD(get())
x = 5
YIELD(get())
x = 7
YIELD(get() + x)
RETNIL`, "closure"),
		G("fx-struct-field-yield", `
type T struct{ v int }
t := &T{v: tr.V(1, 1)}
for i := 0; i < 3; i++ {
	YIELD(t.v)
	t.v = tr.V(2, t.v*3)
}
RETNIL`),
		Raw("fx-return-non-nil-expression-evaluated-when-reached", `
func §other(n int) ITER[int] GEN[int]{
	tr.E(100 + n)
	YIELD(n)
	RETNIL
}GEN
func §gen() ITER[int] GEN[int]{
	YIELD(1)
	if tr.B(1) {
		tr.E(2)
		RETX<<§other(tr.V(3, 7))>>RETX
	}
	YIELD(2)
	RETX<<§other(tr.V(4, 8))>>RETX
}GEN
`+StdEntry, "return-expr"),
		Raw("fx-leading-guard-runs-at-first-advance-not-at-creation", `
func §gen(n int) ITER[int] GEN[int]{
	if tr.V(1, n) < 0 {
		panic(tr.V(2, "negative"))
	}
	if n > 100 {
		panic("huge")
	}
	for i := n; i > 0; i-- {
		YIELD(i)
	}
	RETNIL
}GEN
func §E() {
	drv.Run[int](func() drv.It[int] { it := §gen(2); return it })
	drv.Run[int](func() drv.It[int] { it := §gen(-1); return it })
}
`, "leading-guard"),
		Raw("fx-buffered-channel-not-drained-ahead", `
func §gen(ch chan int) ITER[int] GEN[int]{
	for v := range ch {
		YIELD(v)
	}
	RETNIL
}GEN
func §E() {
	ch := make(chan int, 4)
	for i := 1; i <= 4; i++ {
		ch <- i * 10
	}
	close(ch)
	it := §gen(ch)
	tr.V(1, len(ch))
	for k := 0; k < 3; k++ {
		tr.V(2, it.MoveNext())
		tr.V(3, it.Current())
		tr.V(4, len(ch))
	}
	// a second reader still finds what the abandoned generator has not consumed
	v, ok := <-ch
	tr.V(5, v)
	tr.V(6, ok)
}
`, "range:chan"),
		G("fx-switch-init-and-tag-evaluated-once", `
for i := 0; i < 2; i++ {
	switch x := tr.V(1, i); tr.V(2, x) {
	case 0:
		YIELD(tr.V(3, 100))
	case 1:
		tr.E(4)
		YIELD(tr.V(5, 200))
		tr.E(6)
	}
	tr.E(7)
}
RETNIL`),
	}
}
