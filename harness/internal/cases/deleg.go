package cases

import "covr/internal/e1"

// Deleg returns the directed delegation cases (C05).
func Deleg() []*e1.Program {
	deep := Raw("deleg-deep-chain-3000", `
func §chain(depth int) ITER[int] GEN[int]{
	if depth == 0 {
		YIELD(0)
		RETNIL
	}
	YIELD(depth)
	YFROM(§chain(depth - 1))
	YIELD(-depth)
	RETNIL
}GEN
func §gen() ITER[int] GEN[int]{
	YFROM(§chain(3000))
	RETNIL
}GEN
`+StdEntry, "deleg:deep")
	deep.MaxMoves = 7000
	deep.Budget = 40000
	deep.Hist = []int{}
	return []*e1.Program{
		deep,
		Raw("deleg-basic-order-and-laziness", `
func §sub(n int) ITER[int] GEN[int]{
	tr.E(100 + n)
	for i := 0; i < n; i++ {
		YIELD(tr.V(200+n, n*10+i))
	}
	tr.E(300 + n)
	RETNIL
}GEN
func §gen() ITER[int] GEN[int]{
	tr.E(1)
	YFROM(§sub(tr.V(2, 2)))
	tr.E(3)
	YIELD(99)
	YFROM(§sub(0))
	YFROM(§sub(1))
	tr.E(4)
	RETNIL
}GEN
`+StdEntry, "deleg:arg-effect", "deleg:empty"),
		Raw("deleg-same-generator-recursively", `
func §count(n int) ITER[int] GEN[int]{
	if n > 0 {
		YFROM(§count(n - 1))
		YIELD(n)
		YFROM(§count(n - 2))
	}
	RETNIL
}GEN
func §gen() ITER[int] GEN[int]{
	YFROM(§count(4))
	RETNIL
}GEN
`+StdEntry, "deleg:recursive"),
		Raw("deleg-partially-consumed-and-twice", `
func §sub() ITER[int] GEN[int]{
	for i := 1; i <= 4; i++ {
		tr.E(i)
		YIELD(i)
	}
	RETNIL
}GEN
func §gen() ITER[int] GEN[int]{
	it := §sub()
	it.MoveNext()
	tr.V(10, it.Current())
	YFROM(it)
	tr.E(11)
	YFROM(it)
	other := §sub()
	for i := 0; i < 6; i++ {
		tr.V(12, other.MoveNext())
	}
	YFROM(other)
	YIELD(0)
	RETNIL
}GEN
`+StdEntry, "deleg:partially-consumed", "deleg:twice"),
		Raw("deleg-in-for-post-and-switch", `
func §one(v int) ITER[int] GEN[int]{
	YIELD(v)
	RETNIL
}GEN
func §gen() ITER[int] GEN[int]{
	for i := 0; i < 3; YFROM(§one(100 + i)) {
		switch i {
		case 0:
			YFROM(§one(1))
		case 1:
			YIELD(2)
		default:
			YFROM(§one(3))
			YFROM(§one(4))
		}
		i++
	}
	RETNIL
}GEN
`+StdEntry, "deleg:in-for-post", "deleg:in-switch"),
		Raw("deleg-field-reassigned-during-delegation", `
type §hold struct{ it ITER[int] }

func §leaf(n, base int) ITER[int] GEN[int]{
	for i := 0; i < n; i++ {
		YIELD(base + i)
	}
	RETNIL
}GEN
func §gen() ITER[int] GEN[int]{
	h := &§hold{}
	h.it = func() ITER[int] GEN[int]{
		YIELD(1)
		h.it = §leaf(2, 50)
		YIELD(2)
		YIELD(3)
		RETNIL
	}GEN()
	YFROM(h.it)
	YIELD(-1)
	arr := []ITER[int]{§leaf(2, 10), §leaf(2, 20)}
	i := 0
	YFROM(arr[i])
	i = 1
	YFROM(arr[i])
	RETNIL
}GEN
func §E() {
	drv.Run[int](func() drv.It[int] { it := §gen(); return it })
	// the consumer reassigns the delegated field between two steps of the delegation
	f := &§hold{it: §leaf(3, 100)}
	g := func() ITER[int] GEN[int]{
		YFROM(f.it)
		YIELD(-2)
		RETNIL
	}GEN()
	tr.V(1, g.MoveNext())
	tr.V(2, g.Current())
	f.it = §leaf(2, 900)
	for g.MoveNext() {
		tr.V(3, g.Current())
	}
}
`, "deleg:field-reassigned"),
		Raw("deleg-for-post-with-continue-in-nested-loop", `
func §sub(tag int) ITER[int] GEN[int]{
	tr.E(tag)
	YIELD(tag)
	RETNIL
}GEN
func §gen() ITER[int] GEN[int]{
	for i := 0; i < 2; YFROM(§sub(tr.V(1, -1-i))) {
		for j := 0; j < 3; j++ {
			if j == 1 {
				continue
			}
			YIELD(i*10 + j)
		}
		for _, w := range []int{7, 8} {
			if w == 7 {
				continue
			}
			tr.V(2, w)
		}
		i++
	}
	RETNIL
}GEN
`+StdEntry, "deleg:in-for-post", "deleg:continue"),
		Raw("deleg-loop-with-break-inside-switch-case", `
func §sub(base int) ITER[int] GEN[int]{
	tr.E(base)
	YIELD(base)
	YIELD(base + 1)
	RETNIL
}GEN
func §gen() ITER[int] GEN[int]{
	shared := §sub(500)
	switch tr.N(1, 2) {
	case 0:
		YIELD(-1)
		for i := 0; i < 4; i++ {
			YFROM(§sub(i * 10))
			if i == 1 {
				break
			}
		}
		YIELD(-2)
		for shared.MoveNext() {
			YIELD(shared.Current())
			break
		}
	default:
		for i := 0; i < 3; i++ {
			if i == 1 {
				continue
			}
			YFROM(§sub(100 + i*10))
		}
	}
	YFROM(shared)
	YIELD(-3)
	switch x := any(tr.N(2, 2)).(type) {
	case int:
		for k := 0; k < 3; k++ {
			YIELD(x*100 + k)
			if k == x {
				break
			}
		}
	}
	RETNIL
}GEN
`+StdEntry, "deleg:in-switch", "deleg:break"),
		Raw("deleg-argument-reads-parameter-redeclared-after-delegation", `
func §count(from, n int) ITER[int] GEN[int]{
	tr.E(from)
	for i := 0; i < n; i++ {
		YIELD(from + i)
	}
	RETNIL
}GEN
func §gen(base int) ITER[int] GENP[int](base int){
	next := func() ITER[int] { return §count(tr.V(1, base)+1, 2) }
	YFROM(next())
	base, step := base+100, 10
	YFROM(next())
	YIELD(base + step)
	base, more := base*2, 1
	YFROM(§count(base, more))
	YFROM(next())
	RETNIL
}GENP
func §E() { drv.Run[int](func() drv.It[int] { it := §gen(0); return it }) }
`, "deleg:param-redeclared"),
		Raw("deleg-for-post-reads-name-shadowed-by-const-or-type-of-the-body", `
func §count(from, n int) ITER[int] GEN[int]{
	for i := 0; i < n; i++ {
		YIELD(from + i)
	}
	RETNIL
}GEN
func §gen() ITER[int] GEN[int]{
	base := 10
	for i := 0; i < 2; YFROM(§count(tr.V(1, base+i), 2)) {
		i++
		const base = 0
		tr.U(base)
	}
	width := 15
	for i := 0; i < 2; YFROM(§count(width+i, 1)) {
		i++
		type width struct{ w int }
		tr.U(width{1})
	}
	for i := 0; i < 2; YFROM(§count(base+i, 1)) {
		i++
		var base = 5
		tr.U(base)
	}
	RETNIL
}GEN
`+StdEntry, "deleg:in-for-post", "shadow"),
		Raw("deleg-partial-redeclaration-behind-delegation-in-a-case-clause", `
func §count(from, n int) ITER[int] GEN[int]{
	for i := 0; i < n; i++ {
		YIELD(from + i)
	}
	RETNIL
}GEN
func §gen() ITER[int] GEN[int]{
	for mode := 0; mode < 2; mode++ {
		switch mode {
		case 0:
			base := 1000
			label := func() int { base++; return tr.R(1, base) }
			YFROM(§count(label(), 2))
			base, step := base+1000, 1
			YFROM(§count(label()+step, 1))
		default:
			base := 5000
			pb := &base
			YFROM(§count(*pb, 1))
			base, step := base+100, 2
			*pb += step
			YFROM(§count(base, 2))
		}
	}
	RETNIL
}GEN
`+StdEntry, "deleg:in-switch", "partial-redeclaration"),
		Raw("deleg-explicitly-instantiated-in-for-and-switch-clauses", `
func §grp(base, n int) ITER[int] GEN[int]{
	tr.E(base)
	for i := 0; i < n; i++ {
		YIELDT[int](base + i)
	}
	tr.E(base + 9)
	RETNIL
}GEN
func §gen() ITER[int] GEN[int]{
	for i := 0; i < 2; YFROMT[int](§grp(100*(i+1), 2)) {
		tr.V(1, i)
		i++
	}
	for YFROMT[int](§grp(300, 1)); tr.B(2); YFROMT[int](§grp(400, 1)) {
		YIELD(5)
	}
	switch YFROMT[int](§grp(500, 2)); tr.N(3, 2) {
	case 0:
		tr.E(4)
	default:
		YIELDT[int](6)
	}
	if tr.B(5) {
		YFROMT[int](§grp(600, 1))
	}
	RETNIL
}GEN
`+StdEntry, "deleg:in-for-post", "deleg:in-init-clause", "explicit-instantiation"),
		Raw("deleg-alias-typed-delegates", `
type §ints = ITER[int]

func §sub(from, n int) ITER[int] GEN[int]{
	tr.E(100 + from)
	for i := 0; i < n; i++ {
		YIELD(from + i)
	}
	RETNIL
}GEN
func §pass(it §ints) §ints { tr.E(7); return it }

type §holder struct{ it §ints }

func §gen() ITER[int] GEN[int]{
	var it §ints = §sub(10, 2)
	YFROM(it)
	tr.E(1)
	YFROM(§pass(§sub(20, 2)))
	h := §holder{it: §sub(30, 3)}
	h.it.MoveNext()
	YFROM(h.it)
	tr.E(2)
	RETNIL
}GEN
`+StdEntry, "deleg:alias-typed"),
		Raw("deleg-generic-and-method-generators", `
type §box struct{ xs []int }

func (b *§box) All() ITER[int] GEN[int]{
	for _, x := range b.xs {
		YIELD(x)
	}
	RETNIL
}GEN
func §mapg[A, B any](it ITER[A], f func(A) B) ITER[B] GEN[B]{
	for v := range OVER<<it>>OVER {
		YIELD(f(v))
	}
	RETNIL
}GEN
func §gen() ITER[int] GEN[int]{
	b := &§box{[]int{1, 2, 3}}
	YFROM(b.All())
	YFROM(§mapg(b.All(), func(x int) int { return x * 10 }))
	RETNIL
}GEN
`+StdEntry, "deleg:generic", "deleg:method"),
	}
}
