package cases

import "covr/internal/e1"

// Panics returns the directed panic-attribution cases (C18).
func Panics() []*e1.Program {
	withFmt := func(p *e1.Program) *e1.Program { p.Imports = []string{"fmt"}; return p }
	return []*e1.Program{
		G("panic-between-yields", `
YIELD(1)
tr.E(1)
if tr.B(2) {
	panic(tr.V(3, "boom"))
}
YIELD(2)
RETNIL`, "panic:explicit"),
		G("panic-before-first-yield", `
tr.E(1)
panic("early")
YIELD(1)
RETNIL`, "panic:explicit", "panic-unguarded"),
		G("panic-in-yield-argument", `
YIELD(1)
YIELD(10 / tr.Zero())
YIELD(3)
RETNIL`, "panic:div"),
		withFmt(G("panic-error-value-identity", `
YIELD(1)
panic(fmt.Errorf("wrapped %d", 7))
`, "panic:error")),
		G("panic-in-loop-condition", `
n := 0
ok := func() bool {
	n++
	if n == 3 {
		panic(tr.V(1, "cond"))
	}
	return true
}
for ok() {
	YIELD(n)
}
RETNIL`, "panic-in-loop"),
		G("panic-in-for-post", `
for i := 0; i < 3; func() {
	i++
	if i == 2 {
		panic("post")
	}
}() {
	YIELD(i)
}
RETNIL`, "panic-in-loop"),
		G("panic-in-switch-tag-and-case", `
for i := 0; i < 3; i++ {
	switch tr.V(1, 10/(2-i)) {
	case 5:
		YIELD(5)
	case 10:
		YIELD(10)
		var m map[string]int
		m["x"] = 1
	}
}
RETNIL`, "panic-in-switch"),
		Raw("panic-in-delegate", `
func §sub(n int) ITER[int] GEN[int]{
	for i := 0; i < n; i++ {
		YIELD(i)
		if i == 1 {
			panic(tr.V(1, "sub"))
		}
	}
	RETNIL
}GEN
func §gen() ITER[int] GEN[int]{
	YIELD(100)
	YFROM(§sub(3))
	YIELD(200)
	RETNIL
}GEN
`+StdEntry, "panic-in-delegate"),
		G("panic-in-closure-called-after-yield", `
x := 0
f := func() int {
	if x > 1 {
		panic(tr.V(1, x))
	}
	return x
}
YIELD(f())
x = 1
YIELD(f())
x = 2
YIELD(f())
YIELD(99)
RETNIL`, "panic:explicit"),
		Raw("panic-in-argument-of-returned-generator-call", `
func §boom(s string) int { panic(tr.V(1, s)) }
func §leaf(n int) ITER[int] GEN[int]{
	YIELD(n)
	RETNIL
}GEN
func §gen() ITER[int] GEN[int]{
	YIELD(1)
	YIELD(2)
	RETX<<§leaf(§boom("E1"))>>RETX
}GEN
`+StdEntry, "return-expr"),
		Raw("panic-in-returned-call-inside-switch-in-loop", `
func §boom(s string) int { panic(tr.V(1, s)) }
func §leaf(n int) ITER[int] GEN[int]{
	YIELD(n)
	RETNIL
}GEN
func §gen() ITER[int] GEN[int]{
	for i := 0; i < 5; i++ {
		switch i {
		case 3:
			RETX<<§leaf(§boom("E2"))>>RETX
		default:
			YIELD(i)
		}
	}
	YIELD(99)
	RETNIL
}GEN
`+StdEntry, "return-expr"),
		Raw("panic-nil-interface-loop-condition-after-yielding-if", `
type §src interface {
	Next() bool
	Val() int
}

func §drain(header bool, s §src) ITER[int] GEN[int]{
	if header {
		YIELD(-1)
	}
	for s.Next() {
		YIELD(s.Val())
	}
	RETNIL
}GEN
func §gen() ITER[int] GEN[int]{
	YIELD(0)
	YFROM(§drain(tr.B(1), nil))
	YIELD(5)
	RETNIL
}GEN
func §E() {
	drv.Run[int](func() drv.It[int] { it := §drain(true, nil); return it })
	drv.Run[int](func() drv.It[int] { it := §drain(false, nil); return it })
	drv.Run[int](func() drv.It[int] { it := §gen(); return it })
}
`, "panic:nil-interface"),
		Raw("panic-nil-pointer-method-loop-condition-first-statement", `
type §node struct{ next *§node }

func (n *§node) More() bool { return n.next != nil }
func §gen(n *§node) ITER[int] GEN[int]{
	for n.More() {
		YIELD(1)
		n = n.next
	}
	YIELD(2)
	RETNIL
}GEN
func §E() {
	drv.Run[int](func() drv.It[int] { it := §gen(nil); return it })
	drv.Run[int](func() drv.It[int] { it := §gen(&§node{}); return it })
}
`, "panic:nil-pointer"),
		Raw("panic-with-nil-value-in-delegate", `
func §sub() ITER[int] GEN[int]{
	YIELD(0)
	YIELD(1)
	var err error
	panic(err)
}GEN
func §gen() ITER[int] GEN[int]{
	YFROM(§sub())
	YIELD(8)
	YIELD(9)
	RETNIL
}GEN
func §direct() ITER[int] GEN[int]{
	YIELD(1)
	panic(nil)
}GEN
func §E() {
	drv.Run[int](func() drv.It[int] { it := §gen(); return it })
	drv.Run[int](func() drv.It[int] { it := §direct(); return it })
}
`, "panic:nil"),
		G("panic-after-native-range-over-nil-array-pointer", `
var p *[3]int
n := 0
for i := range p {
	n += i + 1
}
YIELD(n)
for range p {
	n++
}
YIELD(n)
if tr.B(1) {
	panic(tr.V(2, "boom"))
}
YIELD(3)
RETNIL`, "panic:explicit", "range:ptr-array"),
		Raw("panic-after-break-in-native-range", `
func §first[S ~[]int](s S, stop int) ITER[int] GEN[int]{
	n := 0
	for _, v := range s {
		if v == stop {
			break
		}
		if v < 0 {
			continue
		}
		n += v
	}
	YIELD(n)
	if tr.B(1) {
		panic(tr.V(2, "after-break"))
	}
	arr := [3]int{1, 2, 3}
	for i, v := range &arr {
		if i == 1 {
			continue
		}
		if v == 3 {
			break
		}
		n += v
	}
	tr.E(3)
	panic(tr.V(4, n))
}GEN
func §gen() ITER[int] GEN[int]{
	YFROM(§first([]int{1, -1, 2, 9, 4}, 9))
	RETNIL
}GEN
`+StdEntry, "panic:explicit", "range:type-param"),
		G("panic-from-blank-assignments", `
xs := []int{1, 2, 3}
var p *int
var v any = "s"
a, b := 6, tr.Zero()
i := tr.N(1, 5)
YIELD(100)
switch i {
case 0:
	_ = xs[len(xs)+1]
case 1:
	_ = *p
case 2:
	_ = v.(int)
case 3:
	_ = a / b
default:
	_ = xs[1]
}
YIELD(tr.V(2, 200+i))
_ = xs[i:][2]
YIELD(300)
RETNIL`, "panic:index", "panic:blank-assign"),
		Raw("panic-after-break-behind-yield-in-tail-switch", `
func §tail(x int) ITER[int] GEN[int]{
	YIELD(0)
	switch {
	case x > 0:
		if tr.B(1) {
			YIELD(3)
			break
		}
		if x < 5 {
			panic(tr.V(2, "x must be at least 5"))
		}
		YIELD(9)
	default:
		YIELD(-1)
	}
	RETNIL
}GEN
func §gen() ITER[int] GEN[int]{
	YFROM(§tail(tr.N(3, 3) * 4))
	YIELD(77)
	RETNIL
}GEN
`+StdEntry, "panic:explicit", "break-behind-yield-in-tail-switch"),
		G("panic-nil-func-call", `
var f func() int
YIELD(1)
YIELD(f())
RETNIL`, "panic:nilfunc"),
		Raw("panic-only-affects-its-own-iterator", `
func §g(n int) ITER[int] GEN[int]{
	for i := 0; ; i++ {
		if i == n {
			panic(tr.V(1, n))
		}
		YIELD(n*100 + i)
	}
}GEN
func §E() {
	a, b := §g(1), §g(3)
	aDead, bDead := false, false
	for i := 0; i < 5; i++ {
		// nothing is asserted about an iterator after it has panicked: it is not advanced again
		if !aDead {
			func() {
				defer func() {
					if p := recover(); p != nil {
						aDead = true
						tr.V(2, p)
					}
				}()
				tr.V(3, a.MoveNext())
			}()
		}
		if !bDead {
			func() {
				defer func() {
					if p := recover(); p != nil {
						bDead = true
						tr.V(4, p)
					}
				}()
				tr.V(5, b.MoveNext())
				tr.V(6, b.Current())
			}()
		}
	}
}
`, "panic-two-iterators"),
	}
}
