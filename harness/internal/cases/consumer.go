package cases

import "covr/internal/e1"

const consumerSrc = `
func §src(n int, base int) ITER[int] GEN[int]{
	for i := 0; i < n; i++ {
		tr.E(base + i)
		YIELD(base + i)
	}
	tr.E(base + 99)
	RETNIL
}GEN
`

// Consumer returns the directed consumer-side cases (C06).
func Consumer() []*e1.Program {
	mk := func(name, body string, features ...string) *e1.Program {
		p := Raw(name, consumerSrc+"func §E() {\n"+indent(body)+"}\n", features...)
		p.Hist = []int{}
		return p
	}
	return []*e1.Program{
		mk("cons-loop-redeclares-variable", `
for v := range OVER<<§src(3, 10)>>OVER {
	v := v + 100
	tr.V(1, v)
}`, "consumer-redeclares-loop-var"),
		mk("cons-loop-redeclares-variable-with-var", `
for v := range OVER<<§src(3, 10)>>OVER {
	var v = float64(v) / 2
	tr.V(1, int(v*10))
}`, "consumer-redeclares-loop-var"),
		mk("cons-assign-form-with-declaration-in-body", `
last := -1
for last = range OVER<<§src(4, 10)>>OVER {
	d := last * 2
	tr.V(1, d)
	if last == 12 {
		break
	}
}
tr.V(2, last)
found := 0
for found = range OVER<<§src(3, 30)>>OVER {
	var seen = found
	tr.V(3, seen)
}
tr.V(4, found)`, "range-assign", "body-declares"),
		mk("cons-pull-closures-over-reassigned-iterator", `
it := §src(3, 10)
next := func() bool { return it.MoveNext() }
cur := func() int { return it.Current() }
tr.V(1, next())
tr.V(2, cur())
it = §src(2, 50)
for next() {
	tr.V(3, cur())
}
var late ITER[int]
nextLate := func() bool { return late.MoveNext() }
late = §src(1, 70)
tr.V(4, nextLate())`, "pull-closures"),
		Raw("cons-range-over-field-reassigned-in-body", consumerSrc+`
type §holder struct{ it ITER[int] }

func §fwd(h *§holder) ITER[int] GEN[int]{
	for v := range OVER<<h.it>>OVER {
		YIELD(v)
	}
	RETNIL
}GEN
func §E() {
	h := &§holder{it: §src(4, 10)}
	other := §src(3, 100)
	for v := range OVER<<h.it>>OVER {
		tr.V(1, v)
		if v == 11 {
			h.it = other
		}
	}
	for v := range OVER<<other>>OVER {
		tr.V(2, v)
	}
	g := &§holder{it: §src(3, 200)}
	f := §fwd(g)
	tr.V(3, f.MoveNext())
	g.it = §src(2, 300)
	for f.MoveNext() {
		tr.V(4, f.Current())
	}
}
`, "iter-in:struct-field", "field-reassigned"),
		mk("cons-break-does-not-overpull", `
it := §src(4, 10)
for v := range OVER<<it>>OVER {
	tr.V(1, v)
	if v == 11 {
		break
	}
}
tr.E(2)
tr.V(3, it.MoveNext())
tr.V(4, it.Current())
for v := range OVER<<it>>OVER {
	tr.V(5, v)
}
tr.V(6, it.MoveNext())`, "break", "pull"),
		mk("cons-assign-form-final-value", `
v := -1
for v = range OVER<<§src(3, 20)>>OVER {
	tr.V(1, v)
}
tr.V(2, v)
w := -5
for w = range OVER<<§src(0, 30)>>OVER {
	tr.V(3, w)
}
tr.V(4, w)`, "range-assign"),
		mk("cons-continue-and-nested", `
for a := range OVER<<§src(3, 10)>>OVER {
	if a == 11 {
		continue
	}
	for b := range OVER<<§src(2, 50)>>OVER {
		if b == 51 && a == 12 {
			break
		}
		tr.V(1, a*100+b)
	}
}`, "continue", "nested-range"),
		mk("cons-iterators-in-containers", `
type pairT struct {
	a, b ITER[int]
}
p := pairT{§src(2, 10), §src(2, 20)}
m := map[int]ITER[int]{1: §src(1, 30)}
var arr [2]ITER[int]
arr[0] = §src(1, 40)
fs := []func() ITER[int]{func() ITER[int] { return §src(1, 50) }}
for v := range OVER<<p.a>>OVER {
	tr.V(1, v)
	for w := range OVER<<p.b>>OVER {
		tr.V(2, w)
	}
}
for v := range OVER<<m[1]>>OVER {
	tr.V(3, v)
}
for v := range OVER<<arr[0]>>OVER {
	tr.V(4, v)
}
for v := range OVER<<fs[0]()>>OVER {
	tr.V(5, v)
}`, "iter-in:struct-field", "iter-in:map", "iter-in:array", "iter-in:func-slice"),
		mk("cons-labelled-range-continue-break-outer", `
rows := §src(3, 0)
outer:
for r := range OVER<<rows>>OVER {
	for c := range OVER<<§src(3, 100)>>OVER {
		if c == 101 && r == 0 {
			continue outer
		}
		if r == 2 {
			break outer
		}
		tr.V(1, r*1000+c)
	}
}
tr.V(2, rows.MoveNext())
inner := 0
for r := range OVER<<§src(2, 0)>>OVER {
cols:
	for c := range OVER<<§src(3, 200)>>OVER {
		switch {
		case c == 201:
			continue cols
		case c == 202 && r == 1:
			break cols
		}
		inner += c
	}
	tr.V(3, inner+r)
}`, "labels", "nested-range"),
		Raw("cons-labelled-range-in-plain-closure-of-generator", consumerSrc+`
func §gen() ITER[int] GEN[int]{
	firstAbove := func(limit int) int {
		found := -1
	scan:
		for a := range OVER<<§src(3, 10)>>OVER {
			for b := range OVER<<§src(3, 0)>>OVER {
				if a+b > limit {
					found = a*100 + b
					break scan
				}
				if b == 1 {
					continue scan
				}
			}
		}
		return found
	}
	YIELD(firstAbove(11))
	YIELD(firstAbove(100))
	RETNIL
}GEN
`+StdEntry, "labels", "closure:labels"),
		Raw("cons-generator-of-generators", consumerSrc+`
func §chunks(n, size int) ITER[ITER[int]] GEN[ITER[int]]{
	for lo := 0; lo < n; lo += size {
		YIELD(§src(size, lo))
	}
	RETNIL
}GEN

type §table struct {
	rows ITER[ITER[int]]
	all  []ITER[ITER[int]]
	byID map[string]ITER[[]ITER[int]]
	mk   func() ITER[ITER[int]]
}

func §groups(n int) ITER[[]ITER[int]] GEN[[]ITER[int]]{
	for i := 0; i < n; i++ {
		YIELD([]ITER[int]{§src(1, i*10), §src(2, i*10+5)})
	}
	RETNIL
}GEN

func §heads(cs ITER[ITER[int]]) ITER[int] GEN[int]{
	for c := range OVER<<cs>>OVER {
		for v := range OVER<<c>>OVER {
			YIELD(v)
			break
		}
	}
	RETNIL
}GEN

func §total(x any) int {
	t := 0
	switch x := x.(type) {
	case ITER[int]:
		for v := range OVER<<x>>OVER {
			t += v
		}
	case ITER[ITER[int]]:
		for c := range OVER<<x>>OVER {
			for v := range OVER<<c>>OVER {
				t += v * 10
			}
		}
	case ITER[[]ITER[int]]:
		for g := range OVER<<x>>OVER {
			t += len(g) * 1000
		}
	default:
		t = -1
	}
	return t
}

func §E() {
	for v := range OVER<<§heads(§chunks(6, 2))>>OVER {
		tr.V(1, v)
	}
	tb := §table{rows: §chunks(4, 2), mk: func() ITER[ITER[int]] { return §chunks(2, 1) }, byID: map[string]ITER[[]ITER[int]]{"g": §groups(2)}}
	tb.all = append(tb.all, §chunks(2, 2), tb.mk())
	for c := range OVER<<tb.rows>>OVER {
		for v := range OVER<<c>>OVER {
			tr.V(2, v)
		}
	}
	for _, cs := range tb.all {
		for c := range OVER<<cs>>OVER {
			tr.V(3, c.MoveNext())
			tr.V(4, c.Current())
		}
	}
	for g := range OVER<<tb.byID["g"]>>OVER {
		for _, it := range g {
			for v := range OVER<<it>>OVER {
				tr.V(9, v)
			}
		}
	}
	tr.V(5, §total(§src(3, 1)))
	tr.V(6, §total(§chunks(4, 2)))
	tr.V(10, §total(§groups(2)))
	tr.V(7, §total(7))
	var boxed any = §chunks(2, 1)
	_, ok := boxed.(ITER[ITER[int]])
	tr.V(8, ok)
	var fn any = func() ITER[ITER[int]] { return nil }
	_, ok = fn.(func() ITER[ITER[int]])
	tr.V(11, ok)
}
`, "iter-of-iter", "type-switch"),
		mk("cons-body-partially-redeclares-loop-variable", `
for v := range OVER<<§src(3, 1)>>OVER {
	p := &v
	get := func() int { return v }
	half, v := v/2, v*10
	tr.V(1, half+v)
	tr.V(2, *p)
	tr.V(3, get())
}
aliases := map[int]int{1: 100, 3: 300}
for v := range OVER<<§src(3, 1)>>OVER {
	get := func() int { return v }
	v, ok := aliases[v]
	tr.V(4, v)
	tr.V(5, ok)
	tr.V(6, get())
}
for v := range OVER<<§src(2, 5)>>OVER {
	get := func() int { return v }
	const v = 9
	tr.V(7, v+get())
}`, "body-declares", "body-redeclares-loop-var-partially"),
		Raw("cons-body-partially-redeclares-loop-variable-in-generator", consumerSrc+`
func §gen() ITER[int] GEN[int]{
	for v := range OVER<<§src(3, 1)>>OVER {
		get := func() int { return v }
		w, v := v+1, v*100
		YIELD(w + v)
		YIELD(get())
	}
	for v := range OVER<<§src(2, 7)>>OVER {
		p := &v
		YIELD(v)
		q, v := v-1, 0
		YIELD(q + v + *p)
	}
	RETNIL
}GEN
`+StdEntry, "body-declares", "body-redeclares-loop-var-partially"),
		Raw("cons-embedded-iterator-field", consumerSrc+`
type §box struct {
	ITER[int]
	tag string
}

func §E() {
	b := §box{Iter: §src(2, 10), tag: "t"}
	for b.MoveNext() {
		tr.V(1, b.Current())
	}
	c := §box{tag: "u"}
	c.Iter = §src(1, 20)
	for v := range OVER<<c.Iter>>OVER {
		tr.V(2, v)
	}
}
`, "iter-in:embedded-field"),
		func() *e1.Program {
			p := Raw("cons-api-imported-under-two-names", consumerSrc+`
type §node struct {
	leaf int
	kids ITER2[any]
}

func §tree(depth int) ITER[any] GEN[any]{
	YIELD(any(depth))
	if depth > 0 {
		YIELD(any(§tree(depth - 1)))
		var second ITER2[any] = §tree(0)
		YIELD(any(second))
	}
	RETNIL
}GEN
func §flatten(it ITER2[any], out *[]int) {
	for v := range OVER<<it>>OVER {
		switch x := v.(type) {
		case int:
			*out = append(*out, x)
		case ITER2[any]:
			§flatten(x, out)
		}
	}
}
func §first(v any) int {
	if it, ok := v.(ITER2[int]); ok && it.MoveNext() {
		return it.Current()
	}
	return -1
}
func §E() {
	var out []int
	§flatten(§tree(2), &out)
	for _, v := range out {
		tr.V(1, v)
	}
	tr.V(2, §first(any(§src(2, 70))))
	n := §node{leaf: 1, kids: §tree(1)}
	var more []int
	§flatten(n.kids, &more)
	tr.V(3, len(more))
}
`, "iter-api-two-import-names")
			p.Imports = []string{"co2 github.com/goghcrow/go-co"}
			p.Isolate = true
			return p
		}(),
		Raw("cons-alias-typed-iterator", consumerSrc+`
type §ints = ITER[int]

func §pass(it §ints) §ints { return it }
func §E() {
	var it §ints = §src(3, 10)
	for v := range OVER<<§pass(it)>>OVER {
		tr.V(1, v)
	}
}
`, "iter-alias-type"),
		Raw("cons-element-type-name-shadowed-by-loop-variable", `
type §item struct{ n int }

func §items(k int) ITER[§item] GEN[§item]{
	for i := 0; i < k; i++ {
		YIELD(§item{i})
	}
	RETNIL
}GEN
func §twice(k int) ITER[§item] GEN[§item]{
	for §item := range OVER<<§items(k)>>OVER {
		YIELD(§item)
		YIELD(§item)
	}
	RETNIL
}GEN
func §E() {
	for it := §twice(2); it.MoveNext(); {
		tr.V(1, it.Current().n)
	}
}
`, "element-type-name-shadowed"),
		mk("cons-two-iterators-alternating", `
a, b := §src(3, 10), §src(3, 20)
for a.MoveNext() && b.MoveNext() {
	tr.V(1, a.Current()*1000+b.Current())
}
tr.V(2, a.MoveNext())`, "pull"),
	}
}
