// Package cases holds the directed programs of the E1 stream (neutral text).
package cases

import (
	"strings"

	"covr/internal/e1"
)

// StdEntry is the standard consumer entry for an int generator §gen().
// (written with an intermediate variable so that the compiler's eta reduction,
// whose defects are the subject of directed C07/C11/C13 cases, leaves it alone)
const StdEntry = "func §E() { drv.Run[int](func() drv.It[int] { it := §gen(); return it }) }\n"

// G builds a standard program: one int generator with the given body, drained
// by the standard consumer.
func G(name, body string, features ...string) *e1.Program {
	p := &e1.Program{
		Name:     "d:" + name,
		Neutral:  "func §gen() ITER[int] GEN[int]{\n" + indent(body) + "}GEN\n" + StdEntry,
		Features: features,
	}
	if strings.Contains(body, "pairOf(") {
		// a two-result helper (needed by cases about multi-value assignment)
		p.Neutral = strings.Replace(p.Neutral, "pairOf(", "§pairOf(", -1) + "func §pairOf(x int) (int, int) { return x + 1, x * 2 }\n"
	}
	return p
}

// Raw builds a program from complete neutral declarations (must define §E).
func Raw(name, decls string, features ...string) *e1.Program {
	return &e1.Program{Name: "d:" + name, Neutral: decls, Features: features}
}

func indent(s string) string {
	s = strings.Trim(s, "\n")
	lines := strings.Split(s, "\n")
	for i, l := range lines {
		lines[i] = "\t" + l
	}
	return strings.Join(lines, "\n") + "\n"
}
