package cases

import "covr/internal/e1"

// Range returns the directed range cases (C04, and acceptance for C11).
func Range() []*e1.Program {
	return []*e1.Program{
		G("range-array-value-copy", `
arr := [3]int{1, 2, 3}
for i, v := range arr {
	arr[2] = 100
	YIELD(i*1000 + v)
}
YIELD(arr[2])
RETNIL`, "range:array", "range-array-mutated-with-value"),
		G("range-array-nonaddressable", `
mk := func() [3]int { tr.E(1); return [3]int{4, 5, 6} }
for i, v := range mk() {
	YIELD(i*1000 + v)
}
RETNIL`, "range-array-nonaddressable"),
		G("range-array-deref-nil-pointer", `
var p *[3]int
for i := range *p {
	YIELD(i)
}
for range *p {
	YIELD(7)
}
RETNIL`, "range-array-deref-nil-pointer"),
		G("range-array-not-evaluated-with-one-variable", `
mk := func() *[2]int { tr.E(1); return &[2]int{4, 5} }
arr := [2]int{1, 2}
for i := range arr {
	arr[1] = 9
	YIELD(i)
}
for i := range *mk() {
	YIELD(i)
}
for i := range len(arr) {
	YIELD(i + arr[i])
}
RETNIL`, "range:array"),
		G("range-untyped-constant-assigned-to-typed-key", `
var i int64 = -1
for i = range 3 {
	YIELD(int(i))
}
YIELD(int(i))
var u uint8
for u = range 2 {
	YIELD(int(u) + 10)
}
type count int32
var c count
for c = range 2 {
	YIELD(int(c) + 20)
}
const lim = 2
var j int16
for j = range lim {
	YIELD(int(j) + 30)
}
RETNIL`, "range:int-const-typed-key"),
		G("range-untyped-constant-assigned-to-interface-typed-key", `
var k any = "before"
for k = range 3 {
	YIELD(k.(int) + 40)
}
YIELD(k.(int))
var w any
for w = range 0 {
	YIELD(-1)
}
tr.V(1, w == nil)
RETNIL`, "range:int-const-interface-key"),
		G("range-untyped-constant-assigned-to-typed-non-identifier-key", `
var a [2]uint8
n := 0
next := func() int { n++; return tr.V(1, n%2) }
for a[next()] = range 3 {
	YIELD(int(a[0])*10 + int(a[1]))
}
type rec struct{ f int8 }
var s rec
for s.f = range 2 {
	YIELD(int(s.f) + 50)
}
p := new(int16)
for *p = range 2 {
	YIELD(int(*p) + 60)
}
type count int32
var cs [1]count
for cs[0] = range 2 {
	YIELD(int(cs[0]) + 70)
}
type octet = uint8
m := map[string]octet{}
for m["k"] = range 2 {
	YIELD(int(m["k"]) + 80)
}
RETNIL`, "range:int-const-typed-nonident-key"),
		G("range-labelled-loop-restarted-by-goto-in-plain-closure", `
scan := func(xs []int) (out []int) {
	tries := 0
again:
	for i, v := range xs {
		tr.V(1, i*100+v)
		out = append(out, v)
		if v < 0 && tries < 2 {
			tries++
			xs = xs[i+1:]
			goto again
		}
	}
	return
}
for _, v := range scan([]int{1, -2, 3, -4, 5}) {
	YIELD(v)
}
words := func(s string) (n int) {
	restarted := false
outer:
	for i, r := range s {
		tr.V(2, i)
		switch {
		case r == ' ' && !restarted:
			restarted = true
			s = s[i+1:]
			goto outer
		case r == 'x':
			break outer
		case r == 'é':
			continue outer
		}
		n++
	}
	return
}
YIELD(words("ab cédx"))
RETNIL`, "range-in-closure", "labels"),
		G("range-constant-assigned-to-effectful-key-operand-in-plain-closure", `
ring := make([]uint8, 5)
pos := 0
next := func() int { pos = (pos + 2) % 5; return tr.V(1, pos) }
fill := func() {
	for ring[next()] = range 3 {
		tr.E(2)
	}
}
fill()
for _, b := range ring {
	YIELD(int(b))
}
fill()
YIELD(pos)
RETNIL`, "range:int-const-typed-nonident-key", "range-in-closure"),
		func() *e1.Program {
			// range over a NIL channel blocks forever (it is not an empty loop). One-sided observation: the loop runs on a
			// goroutine of its own; on a faithful implementation the flag can never be set, however long one waits
			p := G("range-over-nil-channel-blocks", `
var ch chan int
var finished atomic.Bool
go func() {
	for v := range ch {
		tr.U(v)
	}
	finished.Store(true)
}()
var ro <-chan string
go func() {
	for range ro {
	}
	finished.Store(true)
}()
for i := 0; i < 50 && !finished.Load(); i++ {
	time.Sleep(time.Millisecond)
}
if finished.Load() {
	YIELD(1)
} else {
	YIELD(0)
}
RETNIL`, "range:chan-nil")
			p.Imports = []string{"sync/atomic", "time"}
			return p
		}(),
		G("range-assign-form-value-operand-depends-on-key", `
xs := []int{10, 20, 30}
a := make([]int, 4)
i := 3
for i, a[i] = range xs {
	YIELD(i)
}
YIELD(-1)
for _, v := range a {
	YIELD(v)
}
m := map[int]int{7: 70}
m2 := map[int]int{}
k := -5
for k, m2[k] = range m {
	tr.U(k)
}
YIELD(m2[-5]*1000 + m2[7] + k)
s := "hé"
rs := make([]rune, 6)
j := 5
f := func() int {
	for j, rs[j] = range s {
		tr.U(j)
	}
	return int(rs[5])*1000 + int(rs[0])
}
YIELD(f())
RETNIL`, "range-form:k,v=", "range-assign-operand-order"),
		G("range-typed-int", `
var n uint8 = 3
for i := range n {
	YIELD(int(i))
}
RETNIL`, "range:typed-int"),
		G("range-named-string-type", `
type name string
s := name("héy")
for i, r := range s {
	YIELD(i*1000 + int(r))
}
RETNIL`, "range:named-string"),
		G("range-expression-evaluated-once", `
calls := 0
mk := func() []int { calls++; tr.E(1); return []int{1, 2, 3} }
for _, v := range mk() {
	YIELD(v)
}
YIELD(calls)
RETNIL`, "range:slice"),
		G("range-map-nil-interface-values", `
m := map[string]any{"a": nil}
for k, v := range m {
	if v == nil {
		YIELD(len(k))
	} else {
		YIELD(-1)
	}
}
RETNIL`, "range:map"),
		G("range-string-byte-offsets", `
for i, r := range "aé\xffz" {
	YIELD(i*100000 + int(r))
}
RETNIL`, "range:string"),
		G("range-int-zero-based", `
for i := range 3 {
	YIELD(i)
}
for range 2 {
	YIELD(7)
}
RETNIL`, "range:int"),
		G("range-chan-unbuffered-producer", `
ch := make(chan int)
go func() {
	for i := 0; i < 3; i++ {
		ch <- i * 10
	}
	close(ch)
}()
for v := range ch {
	YIELD(v)
}
RETNIL`, "range:chan"),
		G("range-map-clear-during-loop", `
m := map[int]int{1: 10, 2: 20, 3: 30, 4: 40}
n := 0
for range m {
	n++
	clear(m)
}
YIELD(n)
RETNIL`, "range:map", "range-mutation"),
		G("range-map-delete-others-during-loop", `
m := map[int]int{1: 10, 2: 20, 3: 30, 4: 40, 5: 50}
n := 0
for k, v := range m {
	n++
	tr.U(v)
	for o := 1; o <= 5; o++ {
		if o != k {
			delete(m, o)
		}
	}
	YIELD(1)
}
YIELD(n)
RETNIL`, "range:map", "range-mutation"),
		func() *e1.Program {
			p := G("range-map-nan-keys", `
m := map[float64]int{}
m[math.NaN()] = 1
m[math.NaN()] = 2
m[1.5] = 4
sum, n := 0, 0
for k, v := range m {
	tr.U(k)
	sum += v
	n++
}
YIELD(sum*10 + n)
RETNIL`, "range:map")
			p.Imports = []string{"math"}
			return p
		}(),
		G("range-string-stray-continuation-bytes", `
for i, r := range "ab\x80cd\xbf\xc0\xc1\xf5\xe4\xb8\x80\x80" {
	YIELD(i*100000 + int(r))
}
RETNIL`, "range:string"),
		G("range-key-only-assign-form", `
k := -1
xs := []string{"x", "y", "z"}
for k = range xs {
	YIELD(k)
}
YIELD(k)
ch := make(chan int, 2)
ch <- 7
ch <- 8
close(ch)
last := -1
for last = range ch {
	tr.V(1, last)
}
YIELD(last)
RETNIL`, "range-form:k="),
		func() *e1.Program {
			p := G("range-huge-unsigned-bounds-left-by-break", `
for i := range uint64(math.MaxUint64) {
	YIELD(int(i))
	if i == 2 {
		break
	}
}
n := 0
for i := range uint(1) << 63 {
	n += int(i) + 1
	if i == 3 {
		break
	}
}
YIELD(n)
var small uint8 = 255
c := 0
for range small {
	c++
}
YIELD(c)
var m int8 = 127
for i := range m {
	if i >= 125 {
		YIELD(int(i))
	}
}
RETNIL`, "range:int", "range:typed-int")
			p.Imports = []string{"math"}
			p.MaxMoves = 20
			return p
		}(),
		Raw("range-native-left-kinds-with-break-continue", `
func §each[S ~[]int](s S, stop int) ITER[int] GEN[int]{
	for i := 0; i < 2; i++ {
		YIELD(100 + i)
		sum := 0
		for _, v := range s {
			if v == stop {
				break
			}
			if v%2 == 0 {
				continue
			}
			sum += v
		}
		YIELD(sum)
	}
	RETNIL
}GEN
func §gen() ITER[int] GEN[int]{
	arr := [4]int{1, 2, 3, 4}
	sq := func(yield func(int) bool) {
		for i := 0; i < 4; i++ {
			if !yield(i) {
				return
			}
		}
	}
	for r := 0; r < 2; r++ {
		YIELD(r)
		n := 0
		for i, v := range &arr {
			if i == 0 {
				continue
			}
			if v == 4 {
				break
			}
			n += v
		}
		YIELD(n)
		for v := range sq {
			if v == 2 {
				break
			}
			n += 10
		}
		YIELD(n)
	}
	YFROM(§each([]int{1, 2, 3, 5, 7}, 5))
	RETNIL
}GEN
`+StdEntry, "range:native-left"),
		G("range-two-sibling-non-yielding-loops", `
total := 0
for _, v := range []int{1, 2, 3} {
	total += v
}
for i := range "ab" {
	total += i
}
for k := range map[int]int{4: 1} {
	total += k
}
YIELD(total)
for _, v := range []int{5} {
	YIELD(v)
}
for _, v := range []int{6} {
	total += v
}
YIELD(total)
RETNIL`, "range:siblings"),
		G("range-slice-of-slices-nested", `
xss := [][]int{{1, 2}, {}, {3}}
for i, xs := range xss {
	for j, x := range xs {
		YIELD(i*100 + j*10 + x)
		if x == 1 {
			xss[2] = []int{8, 9}
		}
	}
}
RETNIL`, "range:slice", "range-mutation"),
		G("range-pointer-elements-live", `
type T struct{ v int }
ts := []*T{{1}, {2}, {3}}
for i, t := range ts {
	YIELD(t.v)
	if i == 0 {
		ts[1].v = 20
		ts[2] = &T{30}
	}
}
RETNIL`, "range:slice", "range-mutation"),
	}
}
