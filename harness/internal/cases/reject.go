package cases

import (
	"fmt"
	"strings"

	"covr/internal/e1"
)

// Reject returns the C12 cases: a supported program with ONE unsupported
// construct injected at some statement position of a generator body, and
// negative controls with the same construct inside a nested non-generator
// closure (must be accepted and equivalent).
//
// Every case runs in a package of its own (a rejection aborts a compilation).
func Reject() []*e1.Program {
	var out []*e1.Program
	add := func(name, construct string, p *e1.Program) {
		p.Name = "d:rej-" + name
		p.Features = append(p.Features, "unsupported:"+construct)
		p.Isolate = true
		p.Expect = "reject-or-equiv"
		out = append(out, p)
	}
	// placements of a statement-level construct: {before-yields, between, in-loop, in-if, in-case}
	placements := []string{"top-first", "top-between", "in-loop", "in-if", "in-case"}
	place := func(stmts string) map[string]string {
		s := strings.Trim(stmts, "\n")
		return map[string]string{
			"top-first": s + "\nYIELD(1)\nYIELD(2)\nRETNIL",
			"top-between": "YIELD(1)\n" + s + "\nYIELD(2)\nRETNIL",
			"in-loop": "for i := 0; i < 2; i++ {\n\tYIELD(10 + i)\n" + indent(s) + "}\nYIELD(2)\nRETNIL",
			"in-if": "YIELD(1)\nif tr.B(90) {\n" + indent(s) + "\tYIELD(3)\n}\nYIELD(2)\nRETNIL",
			"in-case": "switch tr.N(91, 2) {\ncase 0:\n\tYIELD(1)\n" + indent(s) + "default:\n\tYIELD(4)\n}\nYIELD(2)\nRETNIL",
		}
	}
	stmtConstructs := []struct{ name, code string }{
		{"goto", "n := 0\nagain:\nn++\nYIELD(100 + n)\nif n < 3 {\n\tgoto again\n}"},
		{"goto-skip", "if tr.B(1) {\n\tgoto done\n}\nYIELD(50)\ndone:\ntr.E(2)"},
		{"labelled-break", "outer:\nfor a := 0; a < 3; a++ {\n\tfor b := 0; b < 3; b++ {\n\t\tYIELD(a*10 + b)\n\t\tif b == 1 {\n\t\t\tbreak outer\n\t\t}\n\t}\n}"},
		{"labelled-continue", "next:\nfor a := 0; a < 3; a++ {\n\tfor b := 0; b < 3; b++ {\n\t\tif b == 1 {\n\t\t\tcontinue next\n\t\t}\n\t\tYIELD(a*10 + b)\n\t}\n}"},
		{"labelled-native-loop", "lbl:\nfor a := 0; a < 3; a++ {\n\tfor b := 0; b < 3; b++ {\n\t\tif b == 1 {\n\t\t\tcontinue lbl\n\t\t}\n\t\ttr.E(a*10 + b)\n\t}\n}"},
		{"select-yield", "ch := make(chan int, 1)\nch <- 7\nselect {\ncase v := <-ch:\n\tYIELD(v)\ndefault:\n\tYIELD(-7)\n}"},
		{"select-no-yield", "ch := make(chan int, 1)\nch <- 7\nselect {\ncase v := <-ch:\n\ttr.V(5, v)\ndefault:\n\ttr.E(6)\n}"},
		{"defer", "defer tr.E(77)\nYIELD(60)"},
		{"defer-closure", "x := 1\ndefer func() { tr.V(78, x) }()\nx = 2\nYIELD(60)\nx = 3"},
		{"fallthrough-yielding", "switch tr.N(3, 2) {\ncase 0:\n\tYIELD(70)\n\tfallthrough\ncase 1:\n\tYIELD(71)\n}"},
		{"fallthrough-into-yielding", "switch tr.N(3, 2) {\ncase 0:\n\ttr.E(4)\n\tfallthrough\ncase 1:\n\tYIELD(71)\n}"},
		{"fallthrough-yielding-case-declares-name-used-by-next-case", "x := 5\nswitch tr.N(3, 2) {\ncase 0:\n\tx := 100\n\tYIELD(x)\n\tfallthrough\ncase 1:\n\tYIELD(x + 1)\n\tx++\ndefault:\n\tYIELD(-x)\n}\nYIELD(x)"},
		{"range-func-left-early", "sq := func(yield func(int) bool) {\n\ttr.E(1)\n\tdefer tr.E(9)\n\tfor i := 0; i < 3; i++ {\n\t\tif !yield(i) {\n\t\t\ttr.E(8)\n\t\t\treturn\n\t\t}\n\t}\n\ttr.E(7)\n}\nfor v := range sq {\n\tYIELD(50 + v)\n\tif v == 1 {\n\t\tbreak\n\t}\n}\nYIELD(-1)"},
		{"range-func2-returns-early", "kv := func(yield func(int, int) bool) {\n\tdefer tr.E(9)\n\tfor i := 0; i < 3; i++ {\n\t\tif !yield(i, i*i) {\n\t\t\ttr.E(8)\n\t\t\treturn\n\t\t}\n\t}\n}\nfor k, v := range kv {\n\tYIELD(k*10 + v)\n\tif tr.B(2) {\n\t\tRETNIL\n\t}\n}"},
		{"range-func", "sq := func(yield func(int) bool) {\n\tfor i := 0; i < 3; i++ {\n\t\tif !yield(i * i) {\n\t\t\treturn\n\t\t}\n\t}\n}\nfor v := range sq {\n\tYIELD(v)\n}"},
		{"range-func-no-yield", "sq := func(yield func(int) bool) {\n\tfor i := 0; i < 3; i++ {\n\t\tif !yield(i * i) {\n\t\t\treturn\n\t\t}\n\t}\n}\nfor v := range sq {\n\ttr.V(8, v)\n}"},
		{"range-ptr-array", "arr := [3]int{5, 6, 7}\nfor i, v := range &arr {\n\tYIELD(i*100 + v)\n}"},
		{"range-nil-ptr-array-one-var", "var p *[3]int\nfor i := range p {\n\tYIELD(100 + i)\n}\nfor range p {\n\tYIELD(200)\n}"},
		{"range-ptr-array-no-yield", "arr := [3]int{5, 6, 7}\nfor i, v := range &arr {\n\ttr.V(9, i*100+v)\n}"},
		{"yield-in-if-init", "if YIELD(80); tr.B(5) {\n\tYIELD(81)\n}"},
		{"yield-in-if-init-else", "if YIELD(80); tr.B(5) {\n\ttr.E(6)\n} else {\n\tYIELD(82)\n}"},
		{"range-iter-no-variable", "for range OVER<<§one()>>OVER {\n\ttr.E(12)\n}"},
	}
	for _, c := range stmtConstructs {
		bodies := place(c.code)
		for _, where := range placements {
			body := bodies[where]
			// labels must be unique per function and gotos must not jump over declarations:
			// only use placements where the construct stays legal Go
			if (strings.Contains(c.code, "goto") || strings.Contains(c.code, ":\n")) && where != "top-first" && where != "top-between" && where != "in-loop" {
				continue
			}
			if c.name == "goto-skip" && where != "top-first" {
				continue
			}
			if strings.HasPrefix(c.name, "defer") && where == "in-loop" {
				continue
			}
			decls := "func §one() ITER[int] GEN[int]{\n\tYIELD(1)\n\tRETNIL\n}GEN\n"
			p := Raw("x", decls+"func §gen() ITER[int] GEN[int]{\n"+indent(body)+"}GEN\n"+StdEntry)
			add(c.name+"-"+where, c.name, p)
		}
	}
	// constructs that are harmless alone but interact with break/continue rewriting or with else-if chains
	for name, body := range map[string]string{
		"select-native-break-after-yield-in-loop": "for i := 0; i < 3; i++ {\n\tYIELD(i)\n\tch := make(chan int, 1)\n\tch <- i\n\tselect {\n\tcase v := <-ch:\n\t\ttr.V(1, v)\n\t\tif v == 1 {\n\t\t\tbreak\n\t\t}\n\t\ttr.E(2)\n\t}\n\tYIELD(10 + i)\n}\nRETNIL",
		"select-native-continue-after-yield-in-loop": "for i := 0; i < 3; i++ {\n\tYIELD(i)\n\tch := make(chan int, 1)\n\tch <- i\n\tselect {\n\tcase v := <-ch:\n\t\tif v == 1 {\n\t\t\tcontinue\n\t\t}\n\t\ttr.E(2)\n\tdefault:\n\t}\n\tYIELD(10 + i)\n}\nRETNIL",
		"range-func-native-break-after-yield-in-loop": "sq := func(yield func(int) bool) {\n\tfor i := 0; i < 3; i++ {\n\t\tif !yield(i) {\n\t\t\treturn\n\t\t}\n\t}\n}\nfor i := 0; i < 2; i++ {\n\tYIELD(i)\n\tfor v := range sq {\n\t\tif v == 1 {\n\t\t\tbreak\n\t\t}\n\t\ttr.V(1, v)\n\t}\n\tYIELD(10 + i)\n}\nRETNIL",
		"range-ptr-array-native-continue-after-yield": "arr := [3]int{5, 6, 7}\nfor i := 0; i < 2; i++ {\n\tYIELD(i)\n\tfor j, v := range &arr {\n\t\tif j == 1 {\n\t\t\tcontinue\n\t\t}\n\t\ttr.V(1, v)\n\t}\n\tYIELD(10 + i)\n}\nRETNIL",
		"defer-in-native-ptr-array-range": "arr := [2]int{1, 2}\nfor _, v := range &arr {\n\tdefer tr.V(70, v)\n}\nYIELD(1)\ntr.E(2)\nYIELD(3)\nRETNIL",
		"defer-in-native-range-func": "sq := func(yield func(int) bool) {\n\tfor i := 0; i < 2; i++ {\n\t\tif !yield(i) {\n\t\t\treturn\n\t\t}\n\t}\n}\nfor v := range sq {\n\tdefer tr.V(71, v)\n}\nYIELD(1)\nYIELD(3)\nRETNIL",
		"yield-in-else-if-init": "for i := 0; i < 3; i++ {\n\tif i == 0 {\n\t\tYIELD(0)\n\t} else if YIELD(100 + i); i == 1 {\n\t\tYIELD(1)\n\t} else {\n\t\tYIELD(-i)\n\t}\n}\nRETNIL",
		"yield-in-second-else-if-init": "x := tr.N(1, 4)\nif x == 0 {\n\ttr.E(2)\n} else if x == 1 {\n\tYIELD(1)\n} else if YIELD(50); x == 2 {\n\ttr.E(3)\n}\nYIELD(9)\nRETNIL",
		"yield-in-else-if-init-of-native-if": "x := tr.N(1, 3)\nif x == 0 {\n\ttr.E(2)\n} else if YIELD(50); x == 1 {\n\ttr.E(3)\n}\nYIELD(9)\nRETNIL",
		"fallthrough-native-switch-break-after-yield": "for i := 0; i < 3; i++ {\n\tYIELD(i)\n\tswitch i {\n\tcase 0:\n\t\ttr.E(1)\n\t\tfallthrough\n\tcase 1:\n\t\tif i == 1 {\n\t\t\tbreak\n\t\t}\n\t\ttr.E(2)\n\t}\n\tYIELD(10 + i)\n}\nRETNIL",
	} {
		p := Raw("x", "func §gen() ITER[int] GEN[int]{\n"+indent(body)+"}GEN\n"+StdEntry)
		add(name, strings.SplitN(name, "-after", 2)[0], p)
	}
	// type-parameter typed range operand
	add("range-type-param", "range-type-param", Raw("x", `
func §each[S ~[]int](s S) ITER[int] GEN[int]{
	for _, v := range s {
		YIELD(v)
	}
	RETNIL
}GEN
func §gen() ITER[int] GEN[int]{
	YFROM(§each([]int{1, 2, 3}))
	RETNIL
}GEN
`+StdEntry))
	add("range-type-param-string", "range-type-param", Raw("x", `
func §runes[S ~string](s S) ITER[int] GEN[int]{
	for i, r := range s {
		YIELD(i*1000 + int(r))
	}
	RETNIL
}GEN
func §gen() ITER[int] GEN[int]{
	YFROM(§runes("aé"))
	RETNIL
}GEN
`+StdEntry))
	// constructs without a meaningful reference: only rejection / unbuildable / no surviving stub call are acceptable
	noref := func(name, construct, decls string) {
		p := Raw("x", decls)
		p.NoRef = true
		add(name, construct, p)
	}
	noref("go-yield", "go-yield", `
func §gen() ITER[int] GEN[int]{
	YIELD(1)
	go YIELD(2)
	YIELD(3)
	RETNIL
}GEN
`+StdEntry)
	noref("defer-yield", "defer-yield", `
func §gen() ITER[int] GEN[int]{
	YIELD(1)
	defer YIELD(2)
	YIELD(3)
	RETNIL
}GEN
`+StdEntry)
	// the API used as a VALUE: the call through the value is a call of the no-op stub
	noref("yield-through-function-value", "yield-as-value", `
func §gen() ITER[int] GEN[int]{
	YIELD(1)
	y := COPKG·Yield[int]
	y(2)
	YIELD(3)
	RETNIL
}GEN
`+StdEntry)
	noref("yieldfrom-through-function-value", "yield-as-value", `
func §one() ITER[int] GEN[int]{
	YIELD(7)
	RETNIL
}GEN
func §gen() ITER[int] GEN[int]{
	YIELD(1)
	from := COPKG·YieldFrom[int]
	from(§one())
	YIELD(3)
	RETNIL
}GEN
`+StdEntry)
	noref("yield-passed-as-argument", "yield-as-value", `
func §each(xs []int, f func(int)) {
	for _, x := range xs {
		f(x)
	}
}
func §gen() ITER[int] GEN[int]{
	YIELD(1)
	§each([]int{2, 3}, COPKG·Yield[int])
	YIELD(4)
	RETNIL
}GEN
`+StdEntry)
	noref("yield-value-in-package-variable", "yield-as-value", `
var §emit = COPKG·Yield[int]

func §gen() ITER[int] GEN[int]{
	YIELD(1)
	§emit(2)
	YIELD(3)
	RETNIL
}GEN
`+StdEntry)
	noref("yield-value-returned-by-plain-helper", "yield-as-value", `
func §emitter() func(int) { return COPKG·Yield[int] }

func §gen() ITER[int] GEN[int]{
	YIELD(1)
	§emitter()(2)
	e := §emitter()
	e(3)
	YIELD(4)
	RETNIL
}GEN
`+StdEntry)
	noref("yieldfrom-value-in-struct-field-of-plain-code", "yield-as-value", `
type §sink struct{ from func(ITER[int]) }

var §s = §sink{from: COPKG·YieldFrom[int]}

func §one() ITER[int] GEN[int]{
	YIELD(7)
	RETNIL
}GEN
func §gen() ITER[int] GEN[int]{
	YIELD(1)
	§s.from(§one())
	YIELD(3)
	RETNIL
}GEN
`+StdEntry)
	noref("yield-in-if-init-of-yield-free-if", "yield-in-if-init", `
func §gen() ITER[int] GEN[int]{
	big := 0
	for _, x := range []int{1, 20, 3} {
		if YIELD(x); x > 10 {
			big++
		}
	}
	if YIELD(-1); big > 0 {
		tr.E(1)
	} else {
		tr.E(2)
	}
	RETNIL
}GEN
`+StdEntry)
	noref("yield-in-nested-plain-closure", "yield-in-plain-closure", `
func §gen() ITER[int] GEN[int]{
	YIELD(1)
	emit := func(v int) { YIELD(v) }
	emit(2)
	YIELD(3)
	RETNIL
}GEN
`+StdEntry)
	noref("yield-in-deferred-closure", "yield-in-plain-closure", `
func §gen() ITER[int] GEN[int]{
	YIELD(1)
	func() {
		YIELD(2)
	}()
	YIELD(3)
	RETNIL
}GEN
`+StdEntry)
	noref("wrong-signature-two-results", "wrong-signature", `
func §bad() (ITER[int], error) {
	YIELD(1)
	return nil, nil
}
func §E() {
	it, _ := §bad()
	tr.V(1, it == nil)
}
`)
	noref("wrong-signature-no-iter", "wrong-signature", `
func §bad() int {
	YIELD(1)
	return 0
}
func §E() { tr.V(1, §bad()) }
`)
	noref("wrong-signature-no-result", "wrong-signature", `
func §bad() {
	YIELD(1)
}
func §E() { §bad() }
`)
	noref("yield-in-plain-closure-of-plain-func", "wrong-signature", `
func §E() {
	f := func() { YIELD(1) }
	f()
}
`)
	// negative controls: the construct inside a nested NON-generator closure must be accepted and equivalent
	for _, c := range []struct{ name, code string }{
		{"goto", "n := 0\nagain:\nn++\nif n < 3 {\n\tgoto again\n}\nreturn n"},
		{"labelled-break", "n := 0\nouter:\nfor a := 0; a < 3; a++ {\n\tfor b := 0; b < 3; b++ {\n\t\tn++\n\t\tif b == 1 {\n\t\t\tbreak outer\n\t\t}\n\t}\n}\nreturn n"},
		{"select", "ch := make(chan int, 1)\nch <- 7\nselect {\ncase v := <-ch:\n\treturn v\ndefault:\n\treturn -7\n}"},
		{"select-with-break", "ch := make(chan int, 1)\nch <- 7\nn := 0\nselect {\ncase v := <-ch:\n\tif v == 7 {\n\t\tbreak\n\t}\n\tn = v\ndefault:\n\tn = -7\n}\nreturn n + 1"},
		{"select-with-break-in-loop", "ch := make(chan int, 3)\nch <- 7\nch <- 8\nn := 0\nfor i := 0; i < 2; i++ {\n\tselect {\n\tcase v := <-ch:\n\t\tif v == 7 {\n\t\t\tbreak\n\t\t}\n\t\tn += v\n\t}\n\tn += 100\n}\nreturn n"},
		{"defer", "n := 1\ndefer func() { tr.V(70, n) }()\nn = 5\nreturn n"},
		{"fallthrough", "n := 0\nswitch tr.N(3, 2) {\ncase 0:\n\tn += 1\n\tfallthrough\ncase 1:\n\tn += 10\n}\nreturn n"},
		{"range-func", "n := 0\nsq := func(yield func(int) bool) {\n\tfor i := 0; i < 3; i++ {\n\t\tif !yield(i) {\n\t\t\treturn\n\t\t}\n\t}\n}\nfor v := range sq {\n\tn += v\n}\nreturn n"},
		{"range-ptr-array", "arr := [3]int{5, 6, 7}\nn := 0\nfor i, v := range &arr {\n\tn += i*100 + v\n}\nreturn n"},
		{"range-ptr-array-with-break", "arr := [3]int{5, 6, 7}\nn := 0\nfor i, v := range &arr {\n\tif i == 1 {\n\t\tcontinue\n\t}\n\tif v == 7 {\n\t\tbreak\n\t}\n\tn += v\n}\nreturn n"},
		{"goto-over-range", "n := 0\nxs := []int{1, 2, 3}\nif tr.B(1) {\n\tgoto end\n}\nfor _, x := range xs {\n\tn += x\n}\nfor i := range 2 {\n\tn += i * 10\n}\nend:\nn++\nreturn n"},
		{"labelled-range", "n := 0\nouter:\nfor _, a := range []int{1, 2, 3} {\n\tfor _, b := range []int{1, 2} {\n\t\tif b == 2 {\n\t\t\tcontinue outer\n\t\t}\n\t\tn += a * b\n\t}\n}\nreturn n"},
	} {
		body := fmt.Sprintf("YIELD(1)\nf := func() int {\n%s}\nYIELD(f())\nYIELD(2)\nRETNIL", indent(c.code))
		p := G("x", body)
		p.Name = "d:ctl-" + c.name + "-in-plain-closure"
		p.Features = []string{"negative-control:" + c.name}
		p.Isolate = true
		p.Expect = "accept"
		out = append(out, p)
	}
	return out
}
