// Package e1 is the diff-trace engine: programs in neutral text are rendered as
// go-co source and as reference text, the source goes through the real compiler
// (stand-alone driver, -tags verif), everything is built against the current
// tree and one child process runs all variants and compares their event traces.
package e1

import (
	"bufio"
	"bytes"
	"crypto/sha256"
	"encoding/hex"
	"encoding/json"
	"fmt"
	"go/ast"
	"go/parser"
	"go/printer"
	"go/token"
	"os"
	"path/filepath"
	"regexp"
	"sort"
	"strconv"
	"strings"
	"sync"
	"time"

	"covr/internal/render"
	"covr/internal/work"
)

// Program is one case of the E1 stream.
type Program struct {
	Name     string            // unique: "d:<directed id>", "x:<n>", "r:<n>"
	Neutral  string            // top-level declarations in neutral text; must define func §E()
	Features []string          // tags computed from the abstract tree
	Shape    string            // shape hash (ids erased); "" = hash of the neutral text
	Style    render.Style      // import style of the source rendering
	MaxTape  int               // decision-tape bit bound (0 = default)
	MaxPaths int               // tape paths explored at most (0 = default)
	MaxMoves int               // advances of the standard consumer (0 = default 12)
	Budget   int               // event budget per run (0 = default)
	Hist     []int             // consumer histories (K values) in addition to the drain; nil = default
	NoRef    bool              // no reference rendering (C07-only cases that use seq directly)
	Isolate  bool              // compile in a package of its own from the start (known-finding witnesses)
	Native   bool              // bystander program: the natively built SOURCE package is the reference (C13)
	MapOrder bool              // traces are compared as sorted multisets (map iteration order)
	Expect   string            // "" | "reject-or-equiv" (C12)
	Optional bool              // mechanically derived variant (genr.Contexts): a precondition failure drops it instead of being a harness error
	Imports  []string          // extra std imports needed by the program text
	Files    map[string]string // extra data files of the package (e.g. for //go:embed); '§' in names is the program prefix
	Info     map[string]any

	ID int // assigned by the pipeline
}

func (p *Program) Prefix() string { return fmt.Sprintf("P%04d_", p.ID) }

func (p *Program) ShapeHash() string {
	if p.Shape != "" {
		return p.Shape
	}
	h := sha256.Sum256([]byte(p.Neutral))
	return hex.EncodeToString(h[:])[:12]
}

func (p *Program) Has(f string) bool {
	for _, x := range p.Features {
		if x == f {
			return true
		}
	}
	return false
}

// Diff is the first divergence of one kind for a program.
type Diff struct {
	Kind  string   `json:"kind"` // CR-full CR-values SC-full STUB POSTSTOP CRASH
	Tape  string   `json:"tape"`
	K     int      `json:"k"`
	At    int      `json:"at"`
	A     []string `json:"a"` // window of the first variant's trace around At
	B     []string `json:"b"`
	WantA string   `json:"want"`
	GotB  string   `json:"got"`
	Count int      `json:"count"`
}

// RunSummary is what the run driver reports per program.
type RunSummary struct {
	Name       string   `json:"name"`
	Paths      int      `json:"paths"`
	PathsCut   bool     `json:"paths_cut"`
	Runs       int      `json:"runs"`
	Events     int      `json:"events"`
	MaxYields  int      `json:"max_yields"`
	MaxTrace   int      `json:"max_trace"`
	BudgetRuns int      `json:"budget_runs"`
	PanicRuns  int      `json:"panic_runs"`
	Diffs      []Diff   `json:"diffs"`
	Sample     []string `json:"sample"`
	SampleTape string   `json:"sample_tape"`
	Tapes      []string `json:"tapes"`
	RefPanics  []string `json:"harness"` // harness problems (reference misbehaved)
}

// Outcome of a program.
type Outcome struct {
	Prog         *Program
	CompilePanic string // compiler panic message ("" = accepted)
	BuildErr     string // go build diagnostics of the generated package
	S1BuildErr   string
	SrcErr       string // precondition failure: the source itself does not type-check (harness bug)
	RefErr       string // precondition failure: the reference rendering does not build (harness bug)
	Crashed      string // the run driver died while running this program
	Hung         string // wall-clock watchdog: no progress (inconclusive, never a verdict)
	Run          *RunSummary
	CoSource     string
	RefSource    string
	OutText      string // generated code of this program's package (singles only) or ""
	OptFired     bool   // stage-1 and final text of this program's declarations differ (Stage1 runs)
}

// Opts of a pipeline run.
type Opts struct {
	Stage1    bool
	BatchSize int
	Parallel  int
	Budget    int // events per run
	MaxTape   int
	MaxPaths  int
	Hist      []int
	HistPaths int // number of leading paths that also get the truncation histories
	Race      bool
	Env       []string // extra environment of the run driver processes (e.g. GODEBUG=panicnil=1)
	KeepOut   bool // read back generated text for failing programs
	Log       func(string)
}

func (o *Opts) defaults() {
	if o.BatchSize == 0 {
		o.BatchSize = 120
	}
	if o.Parallel == 0 {
		o.Parallel = 16
	}
	if o.Budget == 0 {
		o.Budget = 600
	}
	if o.MaxTape == 0 {
		o.MaxTape = 7
	}
	if o.MaxPaths == 0 {
		o.MaxPaths = 48
	}
	if o.Hist == nil {
		o.Hist = []int{0, 1, 2, 4}
	}
	if o.HistPaths == 0 {
		o.HistPaths = 3
	}
	if o.Log == nil {
		o.Log = func(string) {}
	}
}

// Pipeline state.
type Pipeline struct {
	SC   *work.Scratch
	Opts Opts

	ccdrv   string
	overlay string
	round   int
	Stats   map[string]int
	mu      sync.Mutex
}

// New prepares the scratch module: probes, compile driver, co.go trap overlay.
func New(sc *work.Scratch, opts Opts) (*Pipeline, error) {
	opts.defaults()
	p := &Pipeline{SC: sc, Opts: opts, Stats: map[string]int{}}
	if err := sc.CopyProbe("tr", "drv", "ref", "ccdrv", "rlib"); err != nil {
		return nil, err
	}
	bin, r := sc.Build("ccdrv", "./ccdrv", "-tags", "verif")
	if r.Code != 0 {
		return nil, fmt.Errorf("build of compile driver failed (does the tree under test build?):\n%s", r.Out)
	}
	p.ccdrv = bin
	if err := p.writeTrap(); err != nil {
		return nil, err
	}
	return p, nil
}

// writeTrap derives a trap version of <repo>/co.go (Yield/YieldFrom report that
// they were really called, i.e. a yield survived compilation) and an overlay file.
func (p *Pipeline) writeTrap() error {
	coPath := filepath.Join(p.SC.Repo, "co.go")
	fset := token.NewFileSet()
	f, err := parser.ParseFile(fset, coPath, nil, parser.ParseComments)
	if err != nil {
		return fmt.Errorf("parse co.go: %w", err)
	}
	found := 0
	for _, d := range f.Decls {
		fd, ok := d.(*ast.FuncDecl)
		if !ok || fd.Recv != nil || fd.Body == nil {
			continue
		}
		if fd.Name.Name == "Yield" || fd.Name.Name == "YieldFrom" {
			found++
			call := &ast.ExprStmt{X: &ast.CallExpr{Fun: ast.NewIdent("Trap"), Args: []ast.Expr{&ast.BasicLit{Kind: token.STRING, Value: strconv.Quote(fd.Name.Name)}}}}
			fd.Body.List = append([]ast.Stmt{&ast.IfStmt{
				Cond: &ast.BinaryExpr{X: ast.NewIdent("Trap"), Op: token.NEQ, Y: ast.NewIdent("nil")},
				Body: &ast.BlockStmt{List: []ast.Stmt{call}},
			}}, fd.Body.List...)
		}
	}
	if found != 2 {
		return fmt.Errorf("co.go: expected Yield and YieldFrom stubs, found %d", found)
	}
	var buf bytes.Buffer
	if err := printer.Fprint(&buf, fset, f); err != nil {
		return err
	}
	buf.WriteString("\n// Trap is set by the verification run driver (overlay build only).\nvar Trap func(string)\n")
	trap := filepath.Join(p.SC.Dir, "cotrap", "co.go")
	os.MkdirAll(filepath.Dir(trap), 0o755)
	if err := os.WriteFile(trap, buf.Bytes(), 0o644); err != nil {
		return err
	}
	ov := map[string]any{"Replace": map[string]string{coPath: trap}}
	bs, _ := json.Marshal(ov)
	p.overlay = filepath.Join(p.SC.Dir, "overlay.json")
	return os.WriteFile(p.overlay, bs, 0o644)
}

type batch struct {
	name  string // package name, e.g. r0b003
	progs []*Outcome
	gogen bool // compiled through rewriter.GoGen (the go:generate entry point) instead of rewriter.Compile
	gogenOpt bool // ... with the options WithFileSuffix("gen"), WithBuildTag("gen")
}

func (b *batch) hasNative() bool {
	for _, o := range b.progs {
		if o.Prog.Native {
			return true
		}
	}
	return false
}

const fileHeaderCo = `package %s

import (
%s	"scratch/drv"
	"scratch/tr"
%s)

var _ = tr.E
var _ = drv.Cleanup
%s
`

const fileHeaderRef = `package %s

import (
	"scratch/drv"
	"scratch/ref"
	"scratch/tr"
%s)

var _ = tr.E
var _ = drv.Cleanup
var _ ref.Iter[int]
`

func importLines(progs []*Outcome) string {
	set := map[string]bool{}
	for _, o := range progs {
		for _, i := range o.Prog.Imports {
			set[i] = true
		}
	}
	var xs []string
	for i := range set {
		xs = append(xs, i)
	}
	sort.Strings(xs)
	var b strings.Builder
	for _, i := range xs {
		if strings.HasPrefix(i, "_") {
			fmt.Fprintf(&b, "\t_ %q\n", i[1:])
			continue
		}
		if j := strings.Index(i, " "); j > 0 {
			// "name path": an import under an explicit name
			fmt.Fprintf(&b, "\t%s %q\n", i[:j], i[j+1:])
			continue
		}
		fmt.Fprintf(&b, "\t%q\n", i)
	}
	return b.String()
}

// dropAPIImports removes extra imports of the go-co API itself (a second import name in the source rendering):
// the reference rendering does not use the API package
func dropAPIImports(lines string) string {
	var kept []string
	for _, l := range strings.Split(lines, "\n") {
		if strings.Contains(l, "\"github.com/goghcrow/go-co\"") {
			continue
		}
		kept = append(kept, l)
	}
	return strings.Join(kept, "\n")
}

// writeBatch writes src/<name>/ (one file per import style + reg.go) and ref/<name>/.
func (p *Pipeline) writeBatch(b *batch) error {
	byStyle := map[render.Style][]*Outcome{}
	for _, o := range b.progs {
		byStyle[o.Prog.Style] = append(byStyle[o.Prog.Style], o)
	}
	var reg strings.Builder
	fmt.Fprintf(&reg, "package %s\n\n// SharedG is package-level state declared in a file the compiler does not process.\nvar SharedG int\n\nvar Reg = map[string]func(){\n", b.name)
	for _, o := range b.progs {
		fmt.Fprintf(&reg, "\t%q: %sE,\n", o.Prog.Name, o.Prog.Prefix())
	}
	reg.WriteString("}\n")
	for st, os_ := range byStyle {
		var co strings.Builder
		fmt.Fprintf(&co, fileHeaderCo, b.name, st.ImportBlock(), importLines(os_), st.ExtraDecls(fmt.Sprint(int(st))))
		for _, o := range os_ {
			o.CoSource = render.Co(o.Prog.Neutral, o.Prog.Prefix(), st)
			fmt.Fprintf(&co, "// ---- %s\n%s\n", o.Prog.Name, o.CoSource)
		}
		if err := p.SC.WriteFile(filepath.Join("src", b.name, fmt.Sprintf("gen%d.go", int(st))), []byte(co.String())); err != nil {
			return err
		}
	}
	var rf strings.Builder
	var refProgs []*Outcome
	for _, o := range b.progs {
		if !o.Prog.NoRef && !o.Prog.Native {
			refProgs = append(refProgs, o)
		}
	}
	fmt.Fprintf(&rf, fileHeaderRef, b.name, dropAPIImports(importLines(refProgs)))
	nref := 0
	for _, o := range b.progs {
		if o.Prog.NoRef || o.Prog.Native {
			continue
		}
		nref++
		o.RefSource = render.Ref(o.Prog.Neutral, o.Prog.Prefix())
		fmt.Fprintf(&rf, "// ---- %s\n%s\n", o.Prog.Name, o.RefSource)
	}
	var regRef strings.Builder
	fmt.Fprintf(&regRef, "package %s\n\nvar SharedG int\n\nvar Reg = map[string]func(){\n", b.name)
	for _, o := range b.progs {
		if !o.Prog.NoRef && !o.Prog.Native {
			fmt.Fprintf(&regRef, "\t%q: %sE,\n", o.Prog.Name, o.Prog.Prefix())
		}
	}
	regRef.WriteString("}\n")
	if err := p.SC.WriteFile(filepath.Join("src", b.name, "reg.go"), []byte(reg.String())); err != nil {
		return err
	}
	for _, o := range b.progs {
		for name, text := range o.Prog.Files {
			name = strings.ReplaceAll(name, "§", o.Prog.Prefix())
			for _, kind := range []string{"src", "ref", "out", "s1"} {
				if err := p.SC.WriteFile(filepath.Join(kind, b.name, name), []byte(text)); err != nil {
					return err
				}
			}
		}
	}
	if err := p.SC.WriteFile(filepath.Join("ref", b.name, "gen.go"), []byte(rf.String())); err != nil {
		return err
	}
	return p.SC.WriteFile(filepath.Join("ref", b.name, "reg.go"), []byte(regRef.String()))
}

// compileBatches runs the real compiler over the batches (parallel driver
// processes, one Compile call per batch, panics recovered per call).
func (p *Pipeline) compileBatches(bs []*batch) (panics map[string]string, err error) {
	panics = map[string]string{}
	nproc := p.Opts.Parallel
	if nproc > len(bs) {
		nproc = len(bs)
	}
	if nproc == 0 {
		return
	}
	groups := make([][]*batch, nproc)
	for i, b := range bs {
		groups[i%nproc] = append(groups[i%nproc], b)
	}
	var wg sync.WaitGroup
	var mu sync.Mutex
	var firstErr error
	for _, g := range groups {
		wg.Add(1)
		go func(g []*batch) {
			defer wg.Done()
			args := []string{p.ccdrv, "compile"}
			for _, b := range g {
				job := filepath.Join(p.SC.Dir, "src", b.name) + ":" + filepath.Join(p.SC.Dir, "out", b.name)
				if b.gogen {
					work := filepath.Join(p.SC.Dir, "gg", b.name)
					if b.gogenOpt {
						work += "-opt" // through GoGen's options: file suffix and build tag "gen"
					}
					job = "gogen=" + job + ":" + work
				}
				if p.Opts.Stage1 {
					job += ":" + filepath.Join(p.SC.Dir, "s1", b.name)
				}
				args = append(args, job)
			}
			r := work.Run(work.Cmd{Dir: p.SC.Dir, Env: work.Env(), Argv: args, Timeout: 20 * time.Minute, Separate: true})
			mu.Lock()
			defer mu.Unlock()
			if r.TimedOut {
				firstErr = fmt.Errorf("compile driver: watchdog fired")
				return
			}
			seen := map[string]bool{}
			sc := bufio.NewScanner(bytes.NewReader(r.Out))
			sc.Buffer(make([]byte, 1<<20), 1<<22)
			for sc.Scan() {
				line := sc.Text()
				switch {
				case strings.HasPrefix(line, "OK:"):
					seen[filepath.Base(strings.TrimPrefix(line, "OK:"))] = true
				case strings.HasPrefix(line, "PANIC:"):
					rest := strings.TrimPrefix(line, "PANIC:")
					i := strings.Index(rest, ":")
					name := filepath.Base(rest[:i])
					panics[name] = strings.ReplaceAll(rest[i+1:], "\\n", "\n")
					seen[name] = true
				}
			}
			for _, b := range g {
				if !seen[b.name] {
					firstErr = fmt.Errorf("compile driver died (exit %d) before batch %s:\n%s\n%s", r.Code, b.name, tailStr(string(r.Out), 2000), tailStr(string(r.Stderr), 4000))
					return
				}
			}
		}(g)
	}
	wg.Wait()
	return panics, firstErr
}

var pkgErrRe = regexp.MustCompile(`(?m)^# scratch/(src|out|s1|ref)/([A-Za-z0-9_]+)`)

// goBuildPkgs type-checks/builds packages; returns diagnostics per package name.
func (p *Pipeline) goBuildPkgs(kind string, names []string) map[string]string {
	errs := map[string]string{}
	if len(names) == 0 {
		return errs
	}
	args := []string{"build", "-gcflags=-e"}
	for _, n := range names {
		args = append(args, "./"+kind+"/"+n)
	}
	r := p.SC.Go(30*time.Minute, nil, args...)
	if r.Code == 0 {
		return errs
	}
	out := string(r.Out)
	// split by "# pkg" headers
	idx := pkgErrRe.FindAllStringSubmatchIndex(out, -1)
	for i, m := range idx {
		end := len(out)
		if i+1 < len(idx) {
			end = idx[i+1][0]
		}
		name := out[m[4]:m[5]]
		if out[m[2]:m[3]] != kind {
			continue
		}
		errs[name] += out[m[0]:end]
	}
	if len(errs) == 0 {
		// cannot attribute: blame all
		for _, n := range names {
			errs[n] = out
		}
	}
	return errs
}

// fixStage1 appends one dummy use of the go-co import to every stage-1 file that
// still imports it (stage 1 never cleans imports; behaviour-neutral).
func fixStage1(dir string) error {
	ents, err := os.ReadDir(dir)
	if err != nil {
		return err
	}
	for _, e := range ents {
		if e.IsDir() || !strings.HasSuffix(e.Name(), ".go") {
			continue
		}
		path := filepath.Join(dir, e.Name())
		src, err := os.ReadFile(path)
		if err != nil {
			return err
		}
		fset := token.NewFileSet()
		f, err := parser.ParseFile(fset, path, src, parser.ImportsOnly)
		if err != nil {
			continue // let go build report it
		}
		for _, im := range f.Imports {
			if im.Path.Value != `"github.com/goghcrow/go-co"` {
				continue
			}
			name := "co."
			if im.Name != nil {
				name = im.Name.Name + "."
				if im.Name.Name == "." {
					name = ""
				}
			}
			src = append(src, []byte(fmt.Sprintf("\nvar _ %sIter[int] // verif: keeps the stage-1 import used\n", name))...)
			if err := os.WriteFile(path, src, 0o644); err != nil {
				return err
			}
		}
	}
	return nil
}

// declTexts maps a program prefix (Pdddd_) to the printed text of its top-level declarations.
func declTexts(dir string) map[string]string {
	out := map[string]string{}
	ents, _ := os.ReadDir(dir)
	re := regexp.MustCompile(`^P\d{4}_`)
	for _, e := range ents {
		if !strings.HasPrefix(e.Name(), "gen") {
			continue
		}
		fset := token.NewFileSet()
		f, err := parser.ParseFile(fset, filepath.Join(dir, e.Name()), nil, 0)
		if err != nil {
			continue
		}
		for _, d := range f.Decls {
			name := ""
			switch x := d.(type) {
			case *ast.FuncDecl:
				name = x.Name.Name
				if x.Recv != nil && len(x.Recv.List) > 0 {
					t := x.Recv.List[0].Type
					if st, ok := t.(*ast.StarExpr); ok {
						t = st.X
					}
					if ix, ok := t.(*ast.IndexExpr); ok {
						t = ix.X
					}
					if id, ok := t.(*ast.Ident); ok {
						name = id.Name
					}
				}
			case *ast.GenDecl:
				if len(x.Specs) > 0 {
					switch sp := x.Specs[0].(type) {
					case *ast.TypeSpec:
						name = sp.Name.Name
					case *ast.ValueSpec:
						name = sp.Names[0].Name
					}
				}
			}
			pre := re.FindString(name)
			if pre == "" {
				continue
			}
			var b bytes.Buffer
			printer.Fprint(&b, fset, d)
			out[pre] += b.String() + "\n"
		}
	}
	return out
}

func (p *Pipeline) markOptFired(b *batch) {
	s1 := declTexts(filepath.Join(p.SC.Dir, "s1", b.name))
	fin := declTexts(filepath.Join(p.SC.Dir, "out", b.name))
	for _, o := range b.progs {
		pre := o.Prog.Prefix()
		o.OptFired = s1[pre] != fin[pre]
	}
}

func copyFile(from, to string) error {
	bs, err := os.ReadFile(from)
	if err != nil {
		return err
	}
	os.MkdirAll(filepath.Dir(to), 0o755)
	return os.WriteFile(to, bs, 0o644)
}

// Run pushes programs through the pipeline. Programs that fail in a batch are
// retried alone (own package) so that failures are attributed exactly.
func (p *Pipeline) Run(progs []*Program) ([]*Outcome, error) {
	outs := make([]*Outcome, len(progs))
	for i, pr := range progs {
		pr.ID = i
		outs[i] = &Outcome{Prog: pr}
	}
	// round 1: batches (isolated programs get a package of their own)
	var bs []*batch
	var pooled []*Outcome
	for _, o := range outs {
		if o.Prog.Isolate {
			bs = append(bs, &batch{name: fmt.Sprintf("r%di%04d", p.round, o.Prog.ID), progs: []*Outcome{o}})
		} else {
			pooled = append(pooled, o)
		}
	}
	for i := 0; i < len(pooled); i += p.Opts.BatchSize {
		j := i + p.Opts.BatchSize
		if j > len(pooled) {
			j = len(pooled)
		}
		bs = append(bs, &batch{name: fmt.Sprintf("r%db%03d", p.round, len(bs)), progs: pooled[i:j]})
	}
	// every other package goes through the go:generate entry point (GoGen: files named *_co.go under the build
	// tag co, derived files written next to them) instead of Compile; COVERIF_GOGEN=0 / 1 forces one of them
	for i, b := range bs {
		switch os.Getenv("COVERIF_GOGEN") {
		case "0":
		case "1":
			b.gogen = true
		default:
			b.gogen = i%2 == 1
		}
		b.gogenOpt = b.gogen && i%4 == 3
		if b.gogenOpt {
			p.Stats["packages_compiled_through_GoGen_with_suffix_and_tag_options"]++
		}
		if b.gogen {
			p.Stats["packages_compiled_through_GoGen"]++
			p.Stats["programs_compiled_through_GoGen"] += len(b.progs)
		}
	}
	good, bad, err := p.buildRound(bs, true)
	if err != nil {
		return nil, err
	}
	// round 2: singles for programs of failed batches
	if len(bad) > 0 {
		var singles []*batch
		for _, b := range bad {
			for _, o := range b.progs {
				singles = append(singles, &batch{name: fmt.Sprintf("r%ds%04d", p.round, o.Prog.ID), progs: []*Outcome{o}, gogen: b.gogen, gogenOpt: b.gogenOpt})
			}
		}
		p.Stats["programs_retried_alone"] += len(singles)
		g2, _, err := p.buildRound(singles, false)
		if err != nil {
			return nil, err
		}
		good = append(good, g2...)
	}
	p.round++
	if err := p.runGood(good); err != nil {
		return nil, err
	}
	return outs, nil
}

// buildRound compiles and builds batches. In batch mode a failing batch is
// returned in bad (its programs get no verdict yet); in singles mode failures
// are recorded on the program.
func (p *Pipeline) buildRound(bs []*batch, batchMode bool) (good, bad []*batch, err error) {
	t0 := time.Now()
	for _, b := range bs {
		if err := p.writeBatch(b); err != nil {
			return nil, nil, err
		}
	}
	names := make([]string, len(bs))
	byName := map[string]*batch{}
	for i, b := range bs {
		names[i] = b.name
		byName[b.name] = b
	}
	// precondition: sources type-check against the real stub API, references build
	srcErrs := p.goBuildPkgs("src", names)
	refErrs := p.goBuildPkgs("ref", names)
	p.Opts.Log(fmt.Sprintf("preconditions for %d packages: %.1fs", len(bs), time.Since(t0).Seconds()))
	var todo []*batch
	for _, b := range bs {
		se, re := srcErrs[b.name], refErrs[b.name]
		if se == "" && re == "" {
			todo = append(todo, b)
			continue
		}
		if batchMode && len(b.progs) > 1 {
			bad = append(bad, b)
			continue
		}
		for _, o := range b.progs {
			o.SrcErr, o.RefErr = se, re
		}
	}
	t1 := time.Now()
	panics, err := p.compileBatches(todo)
	if err != nil {
		return nil, nil, err
	}
	p.Opts.Log(fmt.Sprintf("compiled %d packages: %.1fs", len(todo), time.Since(t1).Seconds()))
	var built []*batch
	for _, b := range todo {
		if msg, ok := panics[b.name]; ok {
			if batchMode && len(b.progs) > 1 {
				bad = append(bad, b)
			} else {
				for _, o := range b.progs {
					o.CompilePanic = msg
				}
			}
			continue
		}
		// reg.go is not a go-co file: the compiler does not emit it; copy it next to the outputs
		reg := filepath.Join(p.SC.Dir, "src", b.name, "reg.go")
		if err := copyFile(reg, filepath.Join(p.SC.Dir, "out", b.name, "reg.go")); err != nil {
			return nil, nil, err
		}
		if p.Opts.Stage1 {
			s1 := filepath.Join(p.SC.Dir, "s1", b.name)
			if err := fixStage1(s1); err != nil {
				return nil, nil, fmt.Errorf("stage-1 snapshot missing for %s (hook not active?): %w", b.name, err)
			}
			if err := copyFile(reg, filepath.Join(s1, "reg.go")); err != nil {
				return nil, nil, err
			}
		}
		built = append(built, b)
	}
	t2 := time.Now()
	bnames := make([]string, len(built))
	for i, b := range built {
		bnames[i] = b.name
	}
	outErrs := p.goBuildPkgs("out", bnames)
	s1Errs := map[string]string{}
	if p.Opts.Stage1 {
		s1Errs = p.goBuildPkgs("s1", bnames)
	}
	p.Opts.Log(fmt.Sprintf("built %d generated packages: %.1fs", len(built), time.Since(t2).Seconds()))
	for _, b := range built {
		oe, se := outErrs[b.name], s1Errs[b.name]
		if oe == "" && se == "" {
			good = append(good, b)
			if p.Opts.Stage1 {
				p.markOptFired(b)
			}
			continue
		}
		if batchMode && len(b.progs) > 1 {
			bad = append(bad, b)
			continue
		}
		for _, o := range b.progs {
			o.BuildErr, o.S1BuildErr = oe, se
			if bs, err := os.ReadFile(filepath.Join(p.SC.Dir, "out", b.name, fmt.Sprintf("gen%d.go", int(o.Prog.Style)))); err == nil {
				o.OutText = string(bs)
			}
		}
	}
	return good, bad, nil
}

// runGood links one run driver over all good packages and executes it.
func (p *Pipeline) runGood(good []*batch) error {
	if len(good) == 0 {
		return nil
	}
	sort.Slice(good, func(i, j int) bool { return good[i].name < good[j].name })
	var m strings.Builder
	m.WriteString("package main\n\nimport (\n\t\"scratch/rlib\"\n")
	for _, b := range good {
		fmt.Fprintf(&m, "\tc_%s \"scratch/out/%s\"\n", b.name, b.name)
		fmt.Fprintf(&m, "\tr_%s \"scratch/ref/%s\"\n", b.name, b.name)
		if p.Opts.Stage1 {
			fmt.Fprintf(&m, "\ts_%s \"scratch/s1/%s\"\n", b.name, b.name)
		}
		if b.hasNative() {
			fmt.Fprintf(&m, "\tn_%s \"scratch/src/%s\"\n", b.name, b.name)
		}
	}
	m.WriteString(")\n\nfunc main() {\n")
	for _, b := range good {
		s := "nil"
		if p.Opts.Stage1 {
			s = "s_" + b.name + ".Reg"
		}
		n := "nil"
		if b.hasNative() {
			n = "n_" + b.name + ".Reg"
		}
		fmt.Fprintf(&m, "\trlib.Add(c_%s.Reg, %s, r_%s.Reg, %s)\n", b.name, s, b.name, n)
	}
	m.WriteString("\trlib.Main()\n}\n")
	rundir := fmt.Sprintf("run%d", p.round)
	if err := p.SC.WriteFile(filepath.Join(rundir, "main.go"), []byte(m.String())); err != nil {
		return err
	}
	t0 := time.Now()
	flags := []string{"-overlay", p.overlay}
	if p.Opts.Race {
		flags = append(flags, "-race")
	}
	bin, r := p.SC.Build(rundir, "./"+rundir, flags...)
	if r.Code != 0 {
		return fmt.Errorf("link of run driver failed:\n%s", tailStr(string(r.Out), 6000))
	}
	p.Opts.Log(fmt.Sprintf("linked run driver over %d packages: %.1fs", len(good), time.Since(t0).Seconds()))

	// job list
	type job struct {
		Name      string `json:"name"`
		MaxTape   int    `json:"max_tape"`
		MaxPaths  int    `json:"max_paths"`
		Hist      []int  `json:"hist"`
		HistPaths int    `json:"hist_paths"`
		Budget    int    `json:"budget"`
		NoRef     bool   `json:"no_ref"`
		MapOrder  bool   `json:"map_order"`
		Native    bool   `json:"native"`
		MaxMoves  int    `json:"max_moves"`
	}
	byName := map[string]*Outcome{}
	var jobs []job
	for _, b := range good {
		for _, o := range b.progs {
			byName[o.Prog.Name] = o
			j := job{Name: o.Prog.Name, MaxTape: p.Opts.MaxTape, MaxPaths: p.Opts.MaxPaths, Hist: p.Opts.Hist, HistPaths: p.Opts.HistPaths, Budget: p.Opts.Budget, NoRef: o.Prog.NoRef || o.Prog.Native, MapOrder: o.Prog.MapOrder, Native: o.Prog.Native}
			if o.Prog.MaxTape > 0 {
				j.MaxTape = o.Prog.MaxTape
			}
			if o.Prog.MaxPaths > 0 {
				j.MaxPaths = o.Prog.MaxPaths
			}
			if o.Prog.Hist != nil {
				j.Hist = o.Prog.Hist
			}
			if o.Prog.Budget > 0 {
				j.Budget = o.Prog.Budget
			}
			j.MaxMoves = o.Prog.MaxMoves
			jobs = append(jobs, j)
		}
	}
	// run in parallel shards, each a child process; a crash is attributed through the breadcrumb file
	nshard := p.Opts.Parallel
	if nshard > len(jobs) {
		nshard = len(jobs)
	}
	shards := make([][]job, nshard)
	for i, j := range jobs {
		shards[i%nshard] = append(shards[i%nshard], j)
	}
	var wg sync.WaitGroup
	var mu sync.Mutex
	var firstErr error
	t1 := time.Now()
	for si, sh := range shards {
		wg.Add(1)
		go func(si int, sh []job) {
			defer wg.Done()
			for attempt := 0; len(sh) > 0 && attempt < 50; attempt++ {
				tag := fmt.Sprintf("%s-%d-%d", rundir, si, attempt)
				jobFile := filepath.Join(p.SC.Dir, tag+".jobs.json")
				outFile := filepath.Join(p.SC.Dir, tag+".out.jsonl")
				crumb := filepath.Join(p.SC.Dir, tag+".crumb")
				bs, _ := json.Marshal(sh)
				os.WriteFile(jobFile, bs, 0o644)
				env := append([]string{"GOMAXPROCS=2"}, p.Opts.Env...)
				if p.Opts.Race {
					env = append(env, "GORACE=halt_on_error=0 log_path="+filepath.Join(p.SC.Dir, tag+".race"))
				}
				r := work.Run(work.Cmd{Dir: p.SC.Dir, Env: work.Env(env...), Argv: []string{bin, "-jobs", jobFile, "-out", outFile, "-crumb", crumb}, Timeout: 25 * time.Minute})
				done := map[string]bool{}
				if f, err := os.Open(outFile); err == nil {
					sc := bufio.NewScanner(f)
					sc.Buffer(make([]byte, 1<<20), 1<<26)
					for sc.Scan() {
						var rs RunSummary
						if err := json.Unmarshal(sc.Bytes(), &rs); err != nil {
							continue
						}
						mu.Lock()
						if o := byName[rs.Name]; o != nil {
							rs := rs
							o.Run = &rs
						}
						mu.Unlock()
						done[rs.Name] = true
					}
					f.Close()
				}
				if r.Code == 0 && !r.TimedOut {
					for _, j := range sh {
						if !done[j.Name] {
							mu.Lock()
							firstErr = fmt.Errorf("run driver skipped %s", j.Name)
							mu.Unlock()
						}
					}
					return
				}
				// died: the breadcrumb names the culprit
				cb, _ := os.ReadFile(crumb)
				culprit := strings.TrimSpace(string(cb))
				mu.Lock()
				if o := byName[culprit]; o != nil && !done[culprit] {
					what := fmt.Sprintf("exit %d", r.Code)
					if r.TimedOut {
						what = "wall-clock watchdog fired"
					}
					if r.Code == 7 || r.TimedOut {
						o.Hung = what
					} else {
						o.Crashed = what + "\n" + tailStr(string(r.Out), 3000)
					}
				} else if culprit == "" {
					firstErr = fmt.Errorf("run driver died without breadcrumb (exit %d):\n%s", r.Code, tailStr(string(r.Out), 3000))
				}
				mu.Unlock()
				var rest []job
				for _, j := range sh {
					if !done[j.Name] && j.Name != culprit {
						rest = append(rest, j)
					}
				}
				if culprit == "" {
					return
				}
				sh = rest
			}
		}(si, sh)
	}
	wg.Wait()
	p.Opts.Log(fmt.Sprintf("ran %d programs in %d shards: %.1fs", len(jobs), nshard, time.Since(t1).Seconds()))
	return firstErr
}

func tailStr(s string, n int) string {
	if len(s) > n {
		return "…" + s[len(s)-n:]
	}
	return s
}
