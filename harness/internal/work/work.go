// Package work manages scratch Go modules that are built against the tree
// under test ($COVERIF_REPO, default /repo) on every run.
package work

import (
	"bytes"
	"context"
	"fmt"
	"io/fs"
	"os"
	"os/exec"
	"path/filepath"
	"strings"
	"syscall"
	"time"
)

// Repo returns the tree under test.
func Repo() string {
	if r := os.Getenv("COVERIF_REPO"); r != "" {
		return r
	}
	return "/repo"
}

// VerifDir returns the /verif root (directory that contains probes/).
func VerifDir() string {
	if r := os.Getenv("COVERIF_HOME"); r != "" {
		return r
	}
	// binary lives in <verif>/bin/covr
	exe, err := os.Executable()
	if err == nil {
		d := filepath.Dir(filepath.Dir(exe))
		if _, err := os.Stat(filepath.Join(d, "probes")); err == nil {
			return d
		}
	}
	wd, _ := os.Getwd()
	for d := wd; d != "/"; d = filepath.Dir(d) {
		if _, err := os.Stat(filepath.Join(d, "probes")); err == nil {
			return d
		}
	}
	return "/verif"
}

// Scratch is a temporary Go module whose go.mod replaces the module under
// test by the current working tree.
type Scratch struct {
	Dir  string
	Repo string
}

const Module = "scratch"

// New creates the scratch module (outside /repo and /verif).
func New() (*Scratch, error) {
	dir, err := os.MkdirTemp("", "covr-")
	if err != nil {
		return nil, err
	}
	s := &Scratch{Dir: dir, Repo: Repo()}
	gomod := fmt.Sprintf(`module %s

go 1.23

require github.com/goghcrow/go-co v0.0.0

replace github.com/goghcrow/go-co => %s
`, Module, s.Repo)
	if err := os.WriteFile(filepath.Join(dir, "go.mod"), []byte(gomod), 0o644); err != nil {
		return nil, err
	}
	sum, err := os.ReadFile(filepath.Join(s.Repo, "go.sum"))
	if err != nil {
		return nil, err
	}
	if err := os.WriteFile(filepath.Join(dir, "go.sum"), sum, 0o644); err != nil {
		return nil, err
	}
	return s, nil
}

// Cleanup removes the scratch module and everything built in it.
func (s *Scratch) Cleanup() {
	if os.Getenv("COVERIF_KEEP") != "" {
		fmt.Fprintln(os.Stderr, "covr: keeping scratch", s.Dir)
		return
	}
	// module cache style read-only dirs are not created here, plain RemoveAll suffices
	os.RemoveAll(s.Dir)
}

// CopyProbe copies /verif/probes/<name> to <scratch>/<name>.
func (s *Scratch) CopyProbe(names ...string) error {
	for _, name := range names {
		src := filepath.Join(VerifDir(), "probes", name)
		dst := filepath.Join(s.Dir, name)
		if err := CopyTree(src, dst); err != nil {
			return fmt.Errorf("copy probe %s: %w", name, err)
		}
	}
	return nil
}

// CopyTree copies a directory tree (regular files only).
func CopyTree(src, dst string) error {
	return filepath.WalkDir(src, func(p string, d fs.DirEntry, err error) error {
		if err != nil {
			return err
		}
		rel, _ := filepath.Rel(src, p)
		to := filepath.Join(dst, rel)
		if d.IsDir() {
			return os.MkdirAll(to, 0o755)
		}
		if !d.Type().IsRegular() {
			return nil
		}
		bs, err := os.ReadFile(p)
		if err != nil {
			return err
		}
		return os.WriteFile(to, bs, 0o644)
	})
}

// WriteFile writes a file below the scratch dir, creating directories.
func (s *Scratch) WriteFile(rel string, data []byte) error {
	p := filepath.Join(s.Dir, rel)
	if err := os.MkdirAll(filepath.Dir(p), 0o755); err != nil {
		return err
	}
	return os.WriteFile(p, data, 0o644)
}

// Env is the environment for every go invocation.
func Env(extra ...string) []string {
	env := []string{}
	for _, kv := range os.Environ() {
		k := kv[:strings.IndexByte(kv+"=", '=')]
		switch k {
		case "GOFLAGS", "GOPROXY", "GOSUMDB", "GOTOOLCHAIN", "GOWORK", "GORACE", "GOMAXPROCS", "GOFILE", "GOPACKAGE", "GOLINE":
			continue
		}
		env = append(env, kv)
	}
	env = append(env,
		"GOFLAGS=-mod=mod",
		"GOPROXY=off",
		"GOSUMDB=off",
		"GOTOOLCHAIN=local",
		"GOWORK=off",
	)
	return append(env, extra...)
}

// Result of a command.
type Result struct {
	Out      []byte // combined stdout+stderr unless Stdout requested separately
	Stderr   []byte
	Code     int
	TimedOut bool
	Dur      time.Duration
}

// Cmd describes a child process.
type Cmd struct {
	Dir      string
	Env      []string
	Argv     []string
	Timeout  time.Duration // watchdog only; firing = inconclusive
	Separate bool          // capture stderr separately
	Stdin    []byte
}

// Run executes the command under a wall-clock watchdog (never a verdict).
func Run(c Cmd) Result {
	if c.Timeout == 0 {
		c.Timeout = 20 * time.Minute
	}
	ctx, cancel := context.WithTimeout(context.Background(), c.Timeout)
	defer cancel()
	cmd := exec.CommandContext(ctx, c.Argv[0], c.Argv[1:]...)
	cmd.Dir = c.Dir
	cmd.Env = c.Env
	if cmd.Env == nil {
		cmd.Env = Env()
	}
	cmd.SysProcAttr = &syscall.SysProcAttr{Setpgid: true}
	cmd.Cancel = func() error {
		return syscall.Kill(-cmd.Process.Pid, syscall.SIGKILL)
	}
	cmd.WaitDelay = 5 * time.Second
	var out, errb bytes.Buffer
	cmd.Stdout = &out
	if c.Separate {
		cmd.Stderr = &errb
	} else {
		cmd.Stderr = &out
	}
	if c.Stdin != nil {
		cmd.Stdin = bytes.NewReader(c.Stdin)
	}
	t0 := time.Now()
	err := cmd.Run()
	r := Result{Out: out.Bytes(), Stderr: errb.Bytes(), Dur: time.Since(t0)}
	if ctx.Err() == context.DeadlineExceeded {
		r.TimedOut = true
		r.Code = -1
		return r
	}
	if err != nil {
		if ee, ok := err.(*exec.ExitError); ok {
			r.Code = ee.ExitCode()
			if r.Code < 0 {
				r.Code = 128
			}
		} else {
			r.Code = 127
			r.Out = append(r.Out, []byte("\nexec error: "+err.Error())...)
		}
	}
	return r
}

// Go runs the go tool in the scratch module.
func (s *Scratch) Go(timeout time.Duration, extraEnv []string, args ...string) Result {
	return Run(Cmd{Dir: s.Dir, Env: Env(extraEnv...), Argv: append([]string{"go"}, args...), Timeout: timeout})
}

// Build builds ./<pkg> to <scratch>/bin/<name>.
func (s *Scratch) Build(name, pkg string, flags ...string) (string, Result) {
	bin := filepath.Join(s.Dir, "bin", name)
	args := append([]string{"build"}, flags...)
	args = append(args, "-o", bin, pkg)
	r := s.Go(15*time.Minute, nil, args...)
	return bin, r
}

// EnsureDiskSpace is a safety net against the Go build cache: every run builds scratch modules under fresh paths,
// so each check adds about a gigabyte of cache entries that are never reused (a long session filled a 250 GB disk).
// When less than minFreeGiB is left on the file system of the cache, the cache is emptied before the run starts.
func EnsureDiskSpace(minFreeGiB uint64) {
	dir := os.Getenv("GOCACHE")
	if dir == "" {
		home, err := os.UserHomeDir()
		if err != nil {
			return
		}
		dir = filepath.Join(home, ".cache", "go-build")
	}
	var st syscall.Statfs_t
	if err := syscall.Statfs(filepath.Dir(dir), &st); err != nil {
		return
	}
	free := st.Bavail * uint64(st.Bsize) >> 30
	if free >= minFreeGiB {
		return
	}
	// never while another check is running (its builds read the cache): then only warn
	if out, err := exec.Command("pgrep", "-x", "covr").Output(); err == nil && len(strings.Fields(string(out))) > 1 {
		fmt.Fprintf(os.Stderr, "covr: only %d GiB free, but another covr process is running: the Go build cache is left alone\n", free)
		return
	}
	fmt.Fprintf(os.Stderr, "covr: only %d GiB free, emptying the Go build cache (go clean -cache)\n", free)
	cmd := exec.Command("go", "clean", "-cache")
	cmd.Env = Env()
	cmd.Run()
}
