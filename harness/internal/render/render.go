// Package render turns the neutral text of a program into its two renderings:
// go-co source (goes through the real compiler) and the reference rendering
// (same Go text on the reference coroutine runtime). The complete list of
// differences is the marker table below — everything else is identical text.
//
//	marker            go-co source             reference
//	ITER[             Iter[ / co.Iter[         ref.Iter[
//	GEN[T]{ … }GEN    { … }                    { return ref.New(func(ʏ *ref.Y[T]) { … }) }
//	GENP[T](ps){…}GENP { … }                   { return ref.New(func(ʏ *ref.Y[T]) { func(ps) { … }(names of ps) }) }
//	                  (the body is the top level of a function whose parameters are ps again, so that a
//	                   redeclaration `a, b := …` of a parameter keeps Go's meaning in the reference)
//	ITER2[            co2.Iter[                ref.Iter[      (the API imported a second time under the name co2)
//	YIELD(            Yield( / co.Yield(       ʏ.Yield(
//	YFROM(            YieldFrom(               ʏ.From(
//	YIELDT[T](        Yield[T]( / co.Yield[T]( ʏ.Yield(      (explicit instantiation of the API functions)
//	YFROMT[T](        YieldFrom[T](            ʏ.From(
//	RETNIL            return nil               return
//	RETBARE           return                   return        (generators with a named blank result)
//	OVER<<x>>OVER     x                        (x).All()
//	RETX<<e>>RETX     return e                 _ = (e); return
//	COPKG·            "" / co. / xco.          (only in programs without a reference rendering)
//	§                 program prefix           program prefix
package render

import (
	"fmt"
	"strings"
)

// Style is the way the go-co API is imported in the source rendering.
type Style int

const (
	Dot      Style = iota // . "github.com/goghcrow/go-co"
	Named                 // "github.com/goghcrow/go-co"  (co.)
	Alias                 // xco "github.com/goghcrow/go-co"
	DotSeq                // dot import + the file already imports seq under its default name
	NamedSeq              // co. + seq imported under an alias
	NStyles
)

func (s Style) String() string {
	return [...]string{"dot", "named", "alias", "dot+seq", "named+seqalias"}[s]
}

func (s Style) prefix() string {
	switch s {
	case Named, NamedSeq:
		return "co."
	case Alias:
		return "xco."
	}
	return ""
}

// ImportBlock returns the import lines for the API in the source rendering.
func (s Style) ImportBlock() string {
	switch s {
	case Dot:
		return "\t. \"github.com/goghcrow/go-co\"\n"
	case Named:
		return "\t\"github.com/goghcrow/go-co\"\n"
	case Alias:
		return "\txco \"github.com/goghcrow/go-co\"\n"
	case DotSeq:
		return "\t. \"github.com/goghcrow/go-co\"\n\t\"github.com/goghcrow/go-co/seq\"\n"
	case NamedSeq:
		return "\t\"github.com/goghcrow/go-co\"\n\tsq \"github.com/goghcrow/go-co/seq\"\n"
	}
	panic("style")
}

// ExtraDecls keeps style-specific imports used.
func (s Style) ExtraDecls(tag string) string {
	switch s {
	case DotSeq:
		return fmt.Sprintf("var _%s_seq = seq.Normal[int]\n", tag)
	case NamedSeq:
		return fmt.Sprintf("var _%s_seq = sq.Normal[int]\n", tag)
	}
	return ""
}

// matchBracket returns the index just after the bracket closing s[open].
func matchBracket(s string, open int) int {
	depth := 0
	for i := open; i < len(s); i++ {
		switch s[i] {
		case '[':
			depth++
		case ']':
			depth--
			if depth == 0 {
				return i + 1
			}
		}
	}
	return -1
}

// Co renders the go-co source.
func Co(neutral, prefix string, st Style) string {
	p := st.prefix()
	var b strings.Builder
	s := neutral
	for i := 0; i < len(s); {
		switch {
		case strings.HasPrefix(s[i:], "ITER2["):
			b.WriteString("co2.Iter[")
			i += 6
		case strings.HasPrefix(s[i:], "ITER["):
			b.WriteString(p + "Iter[")
			i += 5
		case strings.HasPrefix(s[i:], "GENP["):
			end := matchBracket(s, i+4)
			if end < 0 || end >= len(s) || s[end] != '(' {
				panic("render: bad GENP marker in: " + s[i:min(len(s), i+60)])
			}
			close := strings.Index(s[end:], "){")
			if close < 0 {
				panic("render: bad GENP parameter list")
			}
			b.WriteString("{")
			i = end + close + 2
		case strings.HasPrefix(s[i:], "}GENP"):
			b.WriteString("}")
			i += 5
		case strings.HasPrefix(s[i:], "GEN["):
			end := matchBracket(s, i+3)
			if end < 0 || end >= len(s) || s[end] != '{' {
				panic("render: bad GEN marker in: " + s[i:min(len(s), i+60)])
			}
			b.WriteString("{")
			i = end + 1
		case strings.HasPrefix(s[i:], "}GEN"):
			b.WriteString("}")
			i += 4
		case strings.HasPrefix(s[i:], "COPKG·"):
			b.WriteString(p)
			i += len("COPKG·")
		case strings.HasPrefix(s[i:], "YIELDT["):
			b.WriteString(p + "Yield[")
			i += 7
		case strings.HasPrefix(s[i:], "YFROMT["):
			b.WriteString(p + "YieldFrom[")
			i += 7
		case strings.HasPrefix(s[i:], "YIELD("):
			b.WriteString(p + "Yield(")
			i += 6
		case strings.HasPrefix(s[i:], "YFROM("):
			b.WriteString(p + "YieldFrom(")
			i += 6
		case strings.HasPrefix(s[i:], "RETBARE"):
			b.WriteString("return")
			i += 7
		case strings.HasPrefix(s[i:], "RETNIL"):
			b.WriteString("return nil")
			i += 6
		case strings.HasPrefix(s[i:], "RETX<<"):
			b.WriteString("return ")
			i += 6
		case strings.HasPrefix(s[i:], ">>RETX"):
			i += 6
		case strings.HasPrefix(s[i:], "OVER<<"):
			i += 6
		case strings.HasPrefix(s[i:], ">>OVER"):
			i += 6
		case strings.HasPrefix(s[i:], "§"):
			b.WriteString(prefix)
			i += len("§")
		default:
			b.WriteByte(s[i])
			i++
		}
	}
	return b.String()
}

// Ref renders the reference text.
func Ref(neutral, prefix string) string {
	var b strings.Builder
	var genpArgs []string
	s := neutral
	for i := 0; i < len(s); {
		switch {
		case strings.HasPrefix(s[i:], "ITER2["):
			b.WriteString("ref.Iter[")
			i += 6
		case strings.HasPrefix(s[i:], "ITER["):
			b.WriteString("ref.Iter[")
			i += 5
		case strings.HasPrefix(s[i:], "GENP["):
			end := matchBracket(s, i+4)
			if end < 0 || end >= len(s) || s[end] != '(' {
				panic("render: bad GENP marker")
			}
			close := strings.Index(s[end:], "){")
			if close < 0 {
				panic("render: bad GENP parameter list")
			}
			ty := strings.ReplaceAll(strings.ReplaceAll(s[i+5:end-1], "ITER[", "ref.Iter["), "§", prefix)
			params := strings.ReplaceAll(strings.ReplaceAll(s[end+1:end+close], "ITER[", "ref.Iter["), "§", prefix)
			genpArgs = append(genpArgs, paramNames(params))
			b.WriteString("{ return ref.New(func(ʏ *ref.Y[" + ty + "]) { func(" + params + ") {")
			i = end + close + 2
		case strings.HasPrefix(s[i:], "}GENP"):
			args := genpArgs[len(genpArgs)-1]
			genpArgs = genpArgs[:len(genpArgs)-1]
			b.WriteString("}(" + args + ") }) }")
			i += 5
		case strings.HasPrefix(s[i:], "GEN["):
			end := matchBracket(s, i+3)
			if end < 0 || end >= len(s) || s[end] != '{' {
				panic("render: bad GEN marker")
			}
			ty := strings.ReplaceAll(strings.ReplaceAll(s[i+4:end-1], "ITER[", "ref.Iter["), "§", prefix)
			b.WriteString("{ return ref.New(func(ʏ *ref.Y[" + ty + "]) {")
			i = end + 1
		case strings.HasPrefix(s[i:], "}GEN"):
			b.WriteString("}) }")
			i += 4
		case strings.HasPrefix(s[i:], "YIELDT["), strings.HasPrefix(s[i:], "YFROMT["):
			// the type argument list is dropped: the reference methods are not generic
			end := matchBracket(s, i+6)
			if end < 0 || end >= len(s) || s[end] != '(' {
				panic("render: bad YIELDT / YFROMT marker")
			}
			if s[i+1] == 'I' {
				b.WriteString("ʏ.Yield(")
			} else {
				b.WriteString("ʏ.From(")
			}
			i = end + 1
		case strings.HasPrefix(s[i:], "YIELD("):
			b.WriteString("ʏ.Yield(")
			i += 6
		case strings.HasPrefix(s[i:], "YFROM("):
			b.WriteString("ʏ.From(")
			i += 6
		case strings.HasPrefix(s[i:], "RETBARE"):
			b.WriteString("return")
			i += 7
		case strings.HasPrefix(s[i:], "RETNIL"):
			b.WriteString("return")
			i += 6
		case strings.HasPrefix(s[i:], "RETX<<"):
			// `return <non-nil expr>` in a generator: the expression is evaluated for its effects, then the generator ends
			b.WriteString("_ = (")
			i += 6
		case strings.HasPrefix(s[i:], ">>RETX"):
			b.WriteString("); return")
			i += 6
		case strings.HasPrefix(s[i:], "OVER<<"):
			b.WriteString("(")
			i += 6
		case strings.HasPrefix(s[i:], ">>OVER"):
			b.WriteString(").All()")
			i += 6
		case strings.HasPrefix(s[i:], "§"):
			b.WriteString(prefix)
			i += len("§")
		default:
			b.WriteByte(s[i])
			i++
		}
	}
	return b.String()
}

// paramNames returns the comma-separated names of a parameter list like "a, b int, err error".
func paramNames(params string) string {
	var names []string
	for _, group := range strings.Split(params, ",") {
		f := strings.Fields(group)
		if len(f) > 0 {
			names = append(names, f[0])
		}
	}
	return strings.Join(names, ", ")
}
