#!/bin/bash
# Intake of an independently written breaking change: verifies in a scratch worktree that it applies,
# builds and passes the repository's suite, then stores it as /verif/seeded/<id>/.
# usage: tools/intake.sh <agent-worktree> <A|B> <id> <property> "<needs to manifest>"
export GOFLAGS=-mod=mod GOPROXY=off GOSUMDB=off GOTOOLCHAIN=local
VERIF=$(cd "$(dirname "$0")/.." && pwd)
wt=$1; ab=$2; id=$3; prop=$4; needs=$5
patch="$wt/$ab.patch"
[ -f "$patch" ] || { echo "missing $patch"; exit 2; }
vt=$(mktemp -d /tmp/covr-intake-XXXXXX); rmdir "$vt"
git -C /repo worktree add -q --detach "$vt" HEAD || exit 2
ok=1
git -C "$vt" apply "$patch" || { echo "INTAKE $id: patch does not apply"; ok=0; }
if [ $ok = 1 ]; then
  (cd "$vt" && go build ./... ) || { echo "INTAKE $id: does not build"; ok=0; }
fi
suite=skipped
if [ $ok = 1 ]; then
  if (cd "$vt" && go test -vet=off -count=1 . ./seq ./rewriter ./example ./example/lexer ./example/linq ./example/sched1 ./example/sched2 ./example/tree >/tmp/intake-suite.log 2>&1); then suite=pass; else suite=FAIL; ok=0; grep -v '^\[' /tmp/intake-suite.log | tail -5; fi
fi
git -C /repo worktree remove --force "$vt"
echo "INTAKE $id: applies+builds=$ok suite=$suite"
[ $ok = 1 ] || exit 1
mkdir -p "$VERIF/seeded/$id"
cp "$patch" "$VERIF/seeded/$id/patch.diff"
rm -rf "$VERIF/seeded/$id/demo"; cp -r "$wt/demo_$ab" "$VERIF/seeded/$id/demo"
find "$VERIF/seeded/$id/demo" -type f \( -perm -u+x -size +1M \) -delete 2>/dev/null
python3 - "$VERIF/seeded/$id/meta.json" "$id" "$prop" "$needs" "$wt" "$ab" <<'PY'
import json,sys
path,id,prop,needs,wt,ab=sys.argv[1:7]
meta={"id":id,"property":prop,"needs_to_manifest":needs,"origin":"independent sub-agent given only the property text (worktree %s, change %s)"%(wt,ab),
 "verified":{"applies_to_repo_head":True,"go_build":True,"repo_suite_passes":True},"demo":"see demo/ (README inside)","checks_run":{}}
json.dump(meta,open(path,"w"),indent=1)
PY
echo "stored $VERIF/seeded/$id"
