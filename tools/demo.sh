#!/bin/bash
# Confirms a sub-agent's demonstration: runs <cmd> in <wt>/demo_<X> with the change applied (must fail)
# and with the change reverted (must pass).  usage: tools/demo.sh <wt> <A|B> "<cmd>"
export GOFLAGS=-mod=mod GOPROXY=off GOSUMDB=off GOTOOLCHAIN=local
wt=$1; ab=$2; cmd=$3
git -C "$wt" checkout -q -- . ; 
git -C "$wt" apply "$wt/$ab.patch" || { echo "DEMO: patch does not apply"; exit 2; }
(cd "$wt/demo_$ab" && timeout 900 bash -c "$cmd" >/tmp/demo-with.log 2>&1); with=$?
git -C "$wt" checkout -q -- .
(cd "$wt/demo_$ab" && timeout 900 bash -c "$cmd" >/tmp/demo-without.log 2>&1); without=$?
echo "DEMO $wt $ab: with-change exit=$with  without-change exit=$without  => $([ $with != 0 ] && [ $without = 0 ] && echo CONFIRMED || echo NOT-CONFIRMED)"
[ $with != 0 ] && [ $without = 0 ] || { tail -5 /tmp/demo-with.log; echo ---; tail -5 /tmp/demo-without.log; }
