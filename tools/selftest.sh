#!/bin/bash
# Development aid (DESIGN.md §6): applies each mutants/*.patch to a scratch worktree of /repo
# (outside /repo and /verif, removed afterwards) and runs the quick check of the property the
# patch is named after with COVERIF_REPO pointing at it.
#   <prop>-<name>.patch      must be detected (exit 1 + VIOLATION line)
#   ok-<prop>-<name>.patch   behaviour-preserving: must stay silent (exit 0)
# usage: tools/selftest.sh [--suite] [pattern]
export GOFLAGS=-mod=mod GOPROXY=off GOSUMDB=off GOTOOLCHAIN=local
SUITE=0; [ "$1" = "--suite" ] && { SUITE=1; shift; }
PAT="${1:-}"
VERIF=$(cd "$(dirname "$0")/.." && pwd)
fail=0
for p in "$VERIF"/mutants/*${PAT}*.patch; do
  name=$(basename "$p" .patch)
  expect=1; base=$name
  case "$name" in ok-*) expect=0; base=${name#ok-};; esac
  prop=$(echo "${base%%-*}" | tr a-z A-Z)
  wt=$(mktemp -d /tmp/covr-selftest-XXXXXX)
  rmdir "$wt"
  git -C /repo worktree add -q --detach "$wt" HEAD || { echo "worktree failed"; exit 2; }
  if ! git -C "$wt" apply "$p"; then echo "SELFTEST $name: patch does not apply"; fail=1; git -C /repo worktree remove --force "$wt"; continue; fi
  suite=""
  if [ $SUITE = 1 ]; then
    if (cd "$wt" && go build ./... && go test -vet=off -count=1 . ./seq ./rewriter ./example ./example/lexer ./example/linq ./example/sched1 ./example/sched2 ./example/tree >/dev/null 2>&1); then suite=" suite=pass"; else suite=" suite=FAIL"; fi
    git -C "$wt" checkout -q -- . ; git -C "$wt" clean -fdq; git -C "$wt" apply "$p"
  fi
  out=$(COVERIF_REPO="$wt" COVERIF_NOEVIDENCE=1 "$VERIF/bin/covr" "$prop" --tier quick 2>&1); code=$?
  nv=$(echo "$out" | grep -c '^VIOLATION')
  if [ $code = $expect ] && { [ $expect = 0 ] || [ $nv -gt 0 ]; }; then verdict=OK; else verdict=MISSED; fail=1; fi
  echo "SELFTEST $name: prop=$prop expect_exit=$expect got_exit=$code violations=$nv$suite => $verdict"
  [ $verdict = MISSED ] && echo "$out" | tail -5
  git -C /repo worktree remove --force "$wt"
done
exit $fail
