#!/bin/bash
# Runs every registered quick check against /repo (writing evidence/<id>.json) and prints one line per check.
# usage: tools/refresh_evidence.sh [tier]     exit 0 iff every check exits 0
export GOFLAGS=-mod=mod GOPROXY=off GOSUMDB=off GOTOOLCHAIN=local
cd "$(dirname "$0")/.."
(cd harness && go build -o ../bin/covr ./cmd/covr) || exit 2
tier=${1:-quick}; bad=0
for p in C01 C02 C03 C04 C05 C06 C07 C08 C09 C10 C11 C12 C13 C14 C15 C16 C17 C18; do
  out=$(./bin/covr $p --tier $tier 2>&1); code=$?
  echo "REFRESH $p exit=$code :: $(echo "$out" | grep "^$p " | tail -1)"
  if [ $code != 0 ]; then bad=1; echo "$out" | grep -v '^KNOWN' | head -40; fi
done
exit $bad
