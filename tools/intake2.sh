#!/bin/bash
# Round-2 intake: for <Cxx> processes /tmp/sb-Cxx/{A,B}: confirm the demo (CMD file), verify build+suite,
# store as seeded/r2-cxx-{a,b} (with NOTES.md) and run the property's quick check against it.
# usage: tools/intake2.sh Cxx
export GOFLAGS=-mod=mod GOPROXY=off GOSUMDB=off GOTOOLCHAIN=local
VERIF=$(cd "$(dirname "$0")/.." && pwd)
P=$1; wt=${WTBASE:-/tmp/sb}-$P; lc=$(echo $P | tr A-Z a-z)
for ab in A B; do
  [ -f "$wt/$ab.patch" ] || { echo "R2 $P $ab: no patch"; continue; }
  cmd=$(cat "$wt/demo_$ab/CMD" 2>/dev/null | head -1)
  [ -z "$cmd" ] && cmd="go run ."
  "$VERIF/tools/demo.sh" "$wt" "$ab" "$cmd" | head -1
  id="${RID:-r2}-$lc-$(echo $ab | tr A-Z a-z)"
  "$VERIF/tools/intake.sh" "$wt" "$ab" "$id" "$P" "see NOTES.md in this directory" | tail -1
  if [ -d "$VERIF/seeded/$id" ]; then
    cp "$wt/NOTES.md" "$VERIF/seeded/$id/NOTES.md" 2>/dev/null
    python3 - "$VERIF/seeded/$id/meta.json" "$cmd" <<'PY'
import json,sys
p,cmd=sys.argv[1:3]
m=json.load(open(p)); m['demo_cmd']=cmd; m['round']=int(__import__('os').environ.get('ROUND','2'))
json.dump(m,open(p,'w'),indent=1)
PY
    [ -n "$NOCHECK" ] || "$VERIF/tools/seeded.sh" "$id" | tail -1 | cut -c1-230
  fi
done
