#!/bin/bash
# Clean sweep: every check at the given tier for the given seeds; prints one line per run.
# usage: tools/sweep.sh <tier> <seed>...      (run from /verif or from a `vp run` snapshot)
export GOFLAGS=-mod=mod GOPROXY=off GOSUMDB=off GOTOOLCHAIN=local
cd "$(dirname "$0")/.."
(cd harness && go build -o ../bin/covr ./cmd/covr) || exit 2
tier=$1; shift
bad=0
for seed in "$@"; do
  for p in C01 C02 C03 C04 C05 C06 C07 C08 C09 C10 C11 C12 C13 C14 C15 C16 C17 C18; do
    out=$(COVERIF_NOEVIDENCE=1 VERIF_SEED=$seed ./bin/covr $p --tier $tier 2>&1); code=$?
    echo "SWEEP seed=$seed $p exit=$code :: $(echo "$out" | grep "^$p " | tail -1)"
    if [ $code != 0 ]; then bad=1; echo "$out" | grep -v '^KNOWN' | head -40; fi
  done
done
exit $bad
