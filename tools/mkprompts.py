#!/usr/bin/env python3
"""Writes one prompt file per property for a round of independent reviewers (fresh sub-agents).
The prompt holds ONLY the property text, the rules of the exercise and the list of changes earlier reviewers
already delivered for that property (so that a new reviewer looks for a different mechanism); nothing about the
checks in /verif.   usage: tools/mkprompts.py <round-letter e.g. e> <outdir>"""
import json, re, sys, os
letter, out = sys.argv[1], sys.argv[2]
root = os.path.dirname(os.path.dirname(os.path.abspath(__file__)))
props = [json.loads(l) for l in open(os.path.join(root, 'properties.jsonl'))]
earlier = {}
for line in open(os.path.join(root, 'DESIGN.md')):
    if not line.startswith('| '): continue
    cells = [c.strip() for c in line.strip().strip('|').split('|')]
    if len(cells) < 5 or not re.fullmatch(r'C\d\d', cells[1]): continue
    if not re.match(r'(r\d-)?c\d\d-', cells[0]): continue
    if len(cells) >= 6: txt = '%s — needs: %s' % (cells[2], cells[3])
    else: txt = '%s — needs: %s' % (cells[0].split('-', 1)[1].replace('-', ' '), cells[2])
    earlier.setdefault(cells[1], []).append(txt)
os.makedirs(out, exist_ok=True)
for p in props:
    wt = '/tmp/s%s-%s' % (letter, p['id'])
    prev = '\n'.join('  - ' + t for t in earlier.get(p['id'], []))
    text = f"""You are an independent reviewer in a mutation-style exercise on the Go project goghcrow/go-co (a source-to-source
compiler that rewrites Yield/YieldFrom generator functions into continuation-style code over a small `seq` runtime;
packages: `rewriter/` the compiler, `seq/` the runtime, `cmd/cogen` the go:generate tool, `co.go` the stub API,
`example/` and `rewriter/test/` the tests and golden corpus).

Your private scratch copy is the git worktree {wt} (detached HEAD of the project). Work ONLY inside {wt} (and
sub-directories you create there). Do not read, write or run anything under /repo or /verif. There is no network.
Every shell command needs:  export GOFLAGS=-mod=mod GOPROXY=off GOSUMDB=off GOTOOLCHAIN=local
The project's test suite is (never run `go test ./...`: example/microthread has a test that never terminates):
  go test -vet=off -count=1 . ./seq ./rewriter ./example ./example/lexer ./example/linq ./example/sched1 ./example/sched2 ./example/tree
Notes: the compiler behaves differently inside a `go test` binary (runningWithGoTest: no unique-name counter, no comments,
temp dir kept), so demonstrate compiler changes from an ordinary `go run` program that calls rewriter.Compile(src, dst)
(sources are plain untagged Go files importing github.com/goghcrow/go-co) or by running cmd/cogen via go generate.
rewriter/test/src + rewriter/test/out + *.go.tmp/.go.out are the golden corpus that rewriter.TestRewrite compares textually.

THE PROPERTY (of the project as it is at HEAD; it is supposed to hold):

  id: {p['id']}
  title: {p['title']}
  statement: {p['statement']}
  quantified over: {p['quantifier']['text']}
  why the existing tests cannot settle it: {p['why_tests_cant']}
  anchors: {json.dumps(p['anchors'])}

YOUR TASK: write TWO different changes (A and B) to the project's non-test source code, each of which
  1. still compiles (`go build ./...`) and passes the complete test suite above, unedited;
  2. makes the project VIOLATE the property above (a realistic regression: something a maintainer could plausibly write
     as an optimisation, refactoring, clean-up or "fix" — not sabotage that is obvious at a glance, and not a special case
     keyed on a magic value);
  3. needs something SPECIFIC to manifest — a particular program shape, input, call history, interleaving, sequence of tool
     runs, configuration, or two cooperating code sites that each look fine alone — so that ordinary use (the examples, the
     golden corpus, simple generators drained once) does not expose it. Prefer SILENT misbehaviour (wrong values / order /
     timing / files) over crashes and build failures.
  4. uses a mechanism DIFFERENT from everything in the list of earlier changes below, and A and B differ from each other
     (different code site and different triggering shape). Read the code first; look for corners of the code that the
     earlier changes did not touch.

Earlier reviewers already delivered these changes for this property — do NOT repeat them or close variants of them:
{prev}

Already known limitations of the unchanged project — do NOT spend time on them and do not build a change on them: an unlabelled break
behind a yield inside a switch clause leaves the enclosing loop; `continue` skips a yielding for-post statement; three-clause loop
variables are shared across iterations (init hoisted); range over an ARRAY value iterates the live array / does not build for a
non-addressable array / dereferences a nil *[N]T; a struct that embeds Iter[T] loses the field name; a local variable named like the
element type breaks the output; `for range it {{}}` without a variable is rejected; cogen panics when a co file imports a package that
consists of co files only; `return f()` in a generator is evaluated and dropped; advancing an iterator again after a panic escaped
from it re-runs the pending step.

DELIVERABLES (all inside {wt}):
  {wt}/A.patch, {wt}/B.patch   — `git diff` of the project files only (relative to HEAD, must apply with `git apply` to a clean
                                  checkout of HEAD; do not include the demo directories or patch files in the diff)
  {wt}/demo_A/, {wt}/demo_B/   — a small self-contained demonstration each: its own go.mod (module demo, `go 1.23`,
                                  `require github.com/goghcrow/go-co v0.0.0` + `replace github.com/goghcrow/go-co => {wt}`,
                                  copy {wt}/go.sum next to it), a file CMD containing the ONE shell command line that runs it
                                  from inside the demo directory (e.g. `go run ./gen && go run ./out` or `go test -count=1 ./...`),
                                  and a README saying what it shows. The command must EXIT NON-ZERO with the change applied and
                                  EXIT 0 on the unchanged worktree, deterministically, within a few minutes.
  {wt}/NOTES.md                — for A and B: what the change does, why it looks plausible, exactly what is needed for it to
                                  manifest, and the commands you ran to confirm (suite passes with the change; demo fails with it
                                  and passes without it). Also list any PRE-EXISTING defect of the unchanged project relevant to this
                                  property that you noticed (with a minimal reproducer), separately from your changes.
When you are done the worktree's tracked files must be back at HEAD (`git checkout -- .`), with only A.patch, B.patch, demo_A,
demo_B, NOTES.md left as untracked files. Confirm every claim by actually running it. Your final answer: a short summary of A and
B (site, trigger) and of pre-existing defects, if any.
"""
    open(os.path.join(out, 'prompt-%s.txt' % p['id']), 'w').write(text)
    print(p['id'], len(earlier.get(p['id'], [])), 'earlier changes')
