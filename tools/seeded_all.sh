#!/bin/bash
# Runs every stored seeded change (or those matching a glob) against the quick check of its own property, in scratch
# worktrees, N at a time; prints one line per change.  usage: tools/seeded_all.sh [glob] [parallel]
cd "$(dirname "$0")/.."
glob=${1:-*}; par=${2:-5}
ls -d seeded/$glob/ 2>/dev/null | xargs -n1 basename | xargs -P$par -I{} sh -c 'tools/seeded_wt.sh {} 2>&1 | grep "^SEEDED" | cut -c1-260'
