#!/usr/bin/env python3
"""Regenerates /verif/MANIFEST.json from the table below and validates it."""
import json, os, subprocess, sys
HERE = os.path.dirname(os.path.dirname(os.path.abspath(__file__)))

GOENV = "GOFLAGS=-mod=mod GOPROXY=off GOSUMDB=off GOTOOLCHAIN=local"
ASSUME = ("Trusted base: the Go toolchain (go1.23.5) as semantics oracle; the verdict is 'held on the executions observed', "
          "never 'verified'. ")

# id -> (engine, technique, level text, level note)   (only claimed properties)
E1NOTE = ASSUME + "Trusted base of E1: iter.Pull, the ~60-line reference coroutine runtime (probes/ref), the trace package (probes/tr), the dual renderer's marker table (harness/internal/render). Every other package of a run is compiled through rewriter.GoGen (the go:generate entry point: files renamed *_co.go under the build tag co), the others through rewriter.Compile; the body of every directed generator additionally runs in other syntactic contexts (2 of 15 wrapper kinds per program in the quick tier, all in the thorough tier). Programs outside the generator's grammar, tapes beyond the bit bound and quarantined known-finding classes (KNOWN_FINDINGS.txt) are not covered. "
CHECKS = {
 "C01": ("E1 diff-trace",
         "runtime differential monitor: real compiler output vs the same Go text on a reference coroutine runtime (iter.Pull), value/termination projection of the event trace; directed + bounded-exhaustive + PRNG programs x all decision-tape paths",
         "Exploration: directed shapes (+ context variants) + every well-formed statement tree up to 3 nodes (5 thorough, capped; default clauses at any textual position) + PRNG control-flow, scope and transformer (generators that consume iterators) programs, each compiled by the real rewriter (stand-alone driver) and run under every decision-tape path (depth-first, capped) with drain and truncated histories; the MoveNext/Current projection must equal the reference coroutine's.",
         E1NOTE),
 "C02": ("E1 diff-trace",
         "runtime monitor of the full interleaved event log (consumer call/return markers + generator-side effects and expression evaluations) vs the reference coroutine, every truncation history, plus no-event-after-stop",
         "Exploration: effect-dense programs (variables mutated after being yielded) under every tape path and histories drain / K=0,1,2,4 / 2 calls after exhaustion; full-trace equality with the reference coroutine decides which statements ran inside which MoveNext.",
         E1NOTE),
 "C03": ("E1 diff-trace",
         "runtime monitor of variable-read events (tr.R) and yielded values of scope-stressing programs vs the reference coroutine (Go's own scoping is the oracle)",
         "Exploration: directed shadowing/capture cases + PRNG programs over a 4-name pool (shadowing in nested blocks, if/for/switch/type-switch initialisers, range variables, case clauses, closures created before a yield and called after it, yielding post statements reading body-shadowed names, init clauses declaring several variables, partial redeclarations behind aliases); full-trace equality under every tape path.",
         E1NOTE + "Scratch modules use language version go1.23 (per-iteration loop variables): the single known finding of C03 depends on that."),
 "C04": ("E1 diff-trace",
         "runtime differential monitor: range loops inside compiled generators vs Go's native range statement executing the same text on the reference coroutine; systematic kinds x forms x bodies x mutations",
         "Exploration: the whole systematic cross product (both tiers; ~4000 programs) of 48 collection kinds (strings, slices, arrays, maps, channels, integers incl. constants / typed constants / calls, copying and non-copying conversions ([]rune(s), []byte(s), string(bs), text(bs), string(rs), ints(xs), arr[:]) whose SOURCE is mutated during the loop, defined and directional collection types, element types of every kind, and the kinds the compiler leaves native: pointer to array incl. nil, range over func) x up to 8 variable forms x 11 body shapes (yielding, native, in a closure, break/continue, nested, iteration variable updated, captured by closures ...) x mutations of the ranged collection, + directed cases (incl. labelled ranges restarted by goto in plain closures, effectful key operands, range over a nil channel observed one-sidedly from another goroutine); the thorough tier adds the other wrapping variant of every range expression and a second generator form; full-trace equality, range expression evaluation counted.",
         E1NOTE + "Multi-entry maps are compared as sorted multisets (map order is random)."),
 "C05": ("E1 diff-trace",
         "runtime monitor of delegating generator call graphs vs the reference coroutine (full interleaved trace incl. argument evaluation and delegate-side effects), plus metamorphic twins with the delegation spelled out as a range loop",
         "Exploration: directed delegation cases (depth-3000 chain drained completely, recursion, partially consumed / twice-delegated iterators, for-post and switch positions, generic and method generators) + PRNG call graphs (delegation inside loops of every form incl. loops without condition and ranges over an integer that changes during the loop), each also as spelled-out twin; all tape paths and truncation histories.",
         E1NOTE),
 "C06": ("E1 diff-trace",
         "runtime monitor of consumer-side code in processed files (range / pull over iterators) vs Go's range-over-func on the reference coroutine; generator-side effects make over-pulling visible; build of the output checks complete type replacement",
         "Exploration: directed + PRNG consumer functions (range := / = with break/continue/return, nested ranges, pull-range-pull on one iterator, iterators in struct fields, maps, slices, arrays, channels, closures, func slices, generic boxes, generic and method generators, helper functions) and PRNG transformer generators (range over an iterator with a yielding body, break / continue / return in front of and behind the yield, in if / switch / type-switch / loop / block contexts, = binding, hand pulls, statements after every loop) in 5 import styles; full-trace equality under every tape path; an unbuildable output counts as a violation.",
         E1NOTE),
 "C07": ("E1 diff-trace + hook H1",
         "runtime differential monitor between the two real artefacts: unoptimised stage-1 package (snapshot by the verif hook inside the real Compile) vs optimised package, full interleaved traces; build of the final package",
         "Exploration: all E1 streams + optimiser-directed cases (incl. hand-written seq code whose Delay returns a combinator call over every kind of argument expression); stage-1 and final packages are both built and executed under every tape path and history; traces must be identical and the final package must build whenever stage-1 does; the evidence counts in how many programs the optimiser actually changed the text.",
         E1NOTE + "Stage-1 files get one appended dummy use of the go-co import (stage 1 never cleans imports)."),
 "C11": ("E1 diff-trace (acceptance)",
         "runtime monitor of the real compile entry point (stand-alone binary: panic = rejection) and of `go build` of the generated package, over the supported-subset program streams x import styles",
         "Exploration: every supported-subset program of the streams in 5 import styles and 6 generator forms, explicit instantiations of the API functions, names of the file's own imports bound by every kind of declaration, edge cases additionally each in a file of its own; a compiler panic or an unbuildable generated package is attributed to a single program by re-running it alone.",
         E1NOTE),
 "C14": ("E5 schedules + race detector",
         "runtime monitor of per-iterator records under enumerated interleavings (solo record as oracle) and goroutine-parallel consumption under the Go race detector (GORACE log files, DATA RACE blocks counted and de-duplicated)",
         "Exploration: 28 closed generator kinds (incl. hand-written BindRecv generators driven by MoveNext, by Send, and a Send-driven relay that advances an inner generator by MoveNext) (ONE generic generator at nine element types incl. three interface types; stateless loop VALUES kept in package variables; ranges over four different non-ASCII strings, slices, maps; recursion; closures; one raw term) + parents that yield child generators capturing their range variables (children consumed at once / deferred / reversed / round-robin); all pairs x all 70 interleavings of 4 advances, PRNG triples x all interleavings of 3 (4) advances, PRNG 4-iterator schedules; 16 (64) goroutines x 40 (200) rounds x 3 (20) race-detector runs with PRNG Gosched, each followed by a COLD-START run (a fresh -race process whose goroutines are the first users of the runtime); every iterator's record must equal its solo record, zero race reports (the race log is capped at 32 MiB per run: a racy runtime is judged on the reports written so far), no panic; the evidence counts distinct schedules and distinct goroutine interleavings actually observed.",
         ASSUME + "The race detector only speaks about interleavings that happened."),
 "C15": ("E6 determinism",
         "runtime monitor of output bytes across fresh compiler processes and perturbed configurations (byte comparison, sha256), helper-identifier uniqueness by parsing the outputs",
         "Exploration: generated + repository source files compiled alone (repeated, GOMAXPROCS 1/4/16), among extra files, among other packages, as second Compile of a process, into pre-populated dst/dst_tmp (incl. a file only <dst>_tmp holds: nothing without a source may reach dst, a pre-existing <dst>_tmp must survive), under a different root path, after a rejected run, with unrelated in-package and external test files, with the file that declares shared constants / variables processed in the same run or not, with consumer-only files (no generator) sorting before and after all others, every generated file also WITHOUT the other generated files (so that it is the first file the tool visits); every generated file byte-identical to the first configuration.",
         ASSUME + "Process-level nondeterminism (map seeds, scheduling) is sampled by repeated fresh processes."),
 "C16": ("E7 gogen-fs",
         "runtime monitor of the real cmd/cogen under `go generate`: directory snapshots (path, mode, sha256) of module root and parent before/after, strace file-syscall log (thorough), go build / go test / go vet -tags co, second-run snapshot",
         "Exploration: 20 (thorough 54) module layouts (incl. the directive in a plain doc.go run by a bare `go generate ./...`, generated files of other runs / other GOOS / nested modules / testdata that must stay untouched, a dot import of a sub-package generated in the same run, imports only used by dead code (in one or in two files) whose package registers itself through init or through a variable initialiser, a blank import in a package with and without a co test file, directories inside the package that look like the tool's temp dir, types / constants of a sub-package generated in the same run, co test file only in a sub-package, directive only in a sub-package, a co file with a foreign generated-code header, a main package with a //go:debug directive that is run after generation, plain-sibling variables yielded by generators and observed by a plain test) and three history steps (edit the co file; edit a plain sibling; turn a constant of a generated sub-package into a variable), each compared with a generation from scratch; the snapshot difference must be exactly the expected derived files with the prescribed header; nothing else created, modified, deleted or left behind; package builds/tests/vets afterwards; second run byte-identical.",
         ASSUME + "Layouts are small synthetic packages; the go tool sets GOFILE etc. exactly as for a user."),
 "C17": ("E4 stack-depth",
         "runtime monitor: runtime.Callers depth sampled inside loop bodies/conditions of compiled generators and raw seq loops at iteration indices 2..n, one child process per configuration; bounded-growth oracle",
         "Exploration: 120 (thorough 400) PRNG loop nests of 1..6 levels x seven loop forms x decorations + 24 hand-written loop configurations (all loop forms produced by the real compiler + raw seq.For/While/Loop/Combine/BindRecv terms) with a body that yields only on the last of 10^5 (thorough 10^6) iterations; depth(i) - depth(10) <= 16 frames; second oracle: every configuration (incl. map ranges whose body removes ~n not yet reached entries, channel and string ranges) runs under a 1 MiB stack limit and must survive; delegation chains d=1..24 (64): constant increment per level. 'For all n' is restated as bounded growth up to the stated n.",
         ASSUME + "A finite run cannot decide the limit n -> infinity; growth rather than absolute depth is judged."),
 "C18": ("E1 diff-trace",
         "runtime monitor of panic attribution: every consumer call is wrapped in its own recover and logs where and with which value a panic surfaced; compared with the reference coroutine (iter.Pull propagates the body's panic out of the resuming call)",
         "Exploration: directed cases (panic between yields, in yield arguments, loop conditions, for-post, switch tags, delegates, closures called after a yield, two live iterators, behind natively left ranges, through blank assignments) + PRNG programs with tape-guarded explicit and run-time panics (incl. `_ = xs[i]`, `_ = *p`, `_ = v.(T)`, `_ = a/b`) at random statement positions; full-trace equality up to and including the panicking call.",
         E1NOTE + "Nothing is compared after the panicking call (the property does not specify it)."),
 "C12": ("E1 diff-trace (rejection outcomes)",
         "runtime monitor of compile outcomes and, when compilation succeeds, of the trace vs the reference coroutine in which the unsupported construct executes natively; a co.go trap overlay observes surviving Yield stub calls directly",
         "Exploration: 22 unsupported constructs x up to 5 statement positions + PRNG injection of 16 construct families (incl. labelled loops whose label is only used from inside a switch / select / inner loop of their own body, labelled switches, defer around the last yield) + the API used as a value / in plain closures + signature cases + 12 negative controls + 200 (1400) PRNG injections, one real compiler invocation each; outcome classes rejected / unbuildable / equivalent are fine, divergent or STUB-YIELD is a violation, and so is the go:generate entry point returning normally without deriving the file (cogen would exit 0 and leave a stale output); negative controls must be accepted and equivalent.",
         E1NOTE),
 "C13": ("E1 diff-trace (native source as reference)",
         "runtime differential monitor: the source package built natively vs the generated package on the same driver, result/effect traces; build of the generated package",
         "Exploration: directed bystander declarations (closure shapes func(ps){return f(ps)} over every kind of callee incl. generic seq functions with inferred type arguments and call-depth-sensitive standard functions, hand-written seq code with effectful arguments, constants, initialisers, methods, directives) co-located with generators + 150 (2000) PRNG bystanders; generators (G) and plain closures (P) nested into each other in every order up to depth 4; the scoping directed cases (closures / pointers of ordinary code inside generators); range loops of every kind x form x mutation inside plain closures of generators; the natively built source (or the reference coroutine for code inside generators) is the oracle.",
         E1NOTE),
 "C08": ("E2 seq-model",
         "runtime differential monitor: real seq terms driven through the public API vs a big-step reference interpreter; bounded-exhaustive term enumeration + PRNG terms + metamorphic Combine laws",
         "Exploration: all well-formed combinator terms up to 5 nodes (6 thorough) exhaustively plus 60k (1.5M) PRNG terms up to 30 nodes; every term is also started twice from ONE Seq value, sequentially and with the two iterators advanced alternately (each must equal the solo record); the full interleaved event list (consumer call/return markers, thunk/cond/post evaluations, yields, final result) must equal the reference interpreter's, which decides every truncation point; associativity and unit laws on PRNG triples.",
         ASSUME + "The ~60-line reference interpreter (probes/seqmodel) is the specification; only well-formed terms (Break/Continue under a loop) are generated."),
 "C09": ("E2 seq-model",
         "runtime monitor of call histories: exhaustive histories over {MoveNext, Current, Send, Result} vs a 3-state protocol model, return values + generator-side effect log",
         "Exploration: every history of length <= 6 (8 thorough) over 5 operations x 44 generators (0..3 yields, Bind/BindRecv mixes, ending by fall-off / Return / ReturnValue also from inside loops and from the first half of (nested) Combines, yield sites outside any Delay, generators that read Current() of their own iterator during an advance, two infinite echo loops), exhaustively; every call's return value and the cumulative effect log are compared with the model (a call that causes more than 4000 generator-side effects is cut and recorded: logical step bound, no clock); every history of length <= 5 additionally on TWO iterators started from ONE Seq value and advanced alternately.",
         ASSUME + "The protocol model is written from the property text; Result is compared only after completion."),
 "C10": ("E3 iter-vs-native",
         "runtime differential monitor: seq.New*Iter driven with the compiler's protocol vs Go's native range in the same process, bounded-exhaustive inputs + mutation scripts",
         "Exploration: every byte string up to length 5 (6 thorough) over a 10-byte alphabet with ASCII / multi-byte / invalid sequences, all strings of length <= 2 over all 256 bytes, boundary bytes and valid edge runes (U+0000 .. U+10FFFF incl. U+FFFD) in every combination, typed integers at the limits of their types, 35 typed collections (defined map / slice / string / channel types, receive-only channels, elements of every kind) compared with %#v, channels with a second reader, all small slices x mutation scripts, all small maps x delete/insert/update scripts, typed maps with nil interface keys/values and NaN, channels with nil elements, ints -3..64; the oracle is the native range statement executed on the same value.",
         ASSUME + "Map order is random, so maps are judged by multiset equality and per-visit invariants."),
}

NOT_YET = {
}

def main():
    props = [json.loads(l)["id"] for l in open(os.path.join(HERE, "properties.jsonl"))]
    hooks = ["041ef77"]
    m = {
        "version": 1,
        "setup_cmd": f"cd /verif/harness && {GOENV} go build -o /verif/bin/covr ./cmd/covr",
        "hooks": {
            "guard": "verif",
            "enable": "go build -tags verif (every scratch build of the compile driver / probes)",
            "baseline_off_cmd": f"cd /repo && {GOENV} go test -vet=off -count=1 -json . ./seq ./rewriter ./example ./example/lexer ./example/linq ./example/sched1 ./example/sched2 ./example/tree",
            "source_commits": hooks,
            "add_only": True,
        },
        "engines": [],
        "checks": [],
        "not_applicable": [],
        "notes": "All checks are runtime monitors over executions of the real code (see DESIGN.md). Exit 0 = held on everything observed and observation thresholds met; 1 = VIOLATION; 2 = harness error / inconclusive (never with a VIOLATION line). Known findings and fixed defects: /verif/KNOWN_FINDINGS.txt.",
    }
    engines = {}
    for pid in props:
        if pid in CHECKS:
            eng, tech, text, note = CHECKS[pid]
            engines.setdefault(eng, []).append(pid)
            m["checks"].append({
                "property_id": pid,
                "quick_cmd": f"/verif/bin/covr {pid} --tier quick",
                "thorough_cmd": f"/verif/bin/covr {pid} --tier thorough",
                "evidence_file": f"/verif/evidence/{pid}.json",
                "replay_cmd_template": "/verif/bin/covr replay {path}",
                "engine": eng,
                "level_claimed": {"category": "exploration", "text": text, "design_ref": "DESIGN.md §5 " + pid},
                "level_note": note,
                "technique": tech,
            })
        else:
            m["not_applicable"].append({"property_id": pid, "reason": NOT_YET.get(pid, "check not built yet in this revision of /verif (planned in DESIGN.md §5); not claimed until its monitor exists and is silent on the unchanged tree")})
    for e, ps in engines.items():
        m["engines"].append({"name": e, "path": "/verif/harness/internal/engine", "serves_properties": ps, "kind_free_text": "runtime monitoring"})
    out = os.path.join(HERE, "MANIFEST.json")
    json.dump(m, open(out, "w"), indent=1)
    open(out, "a").write("\n")
    try:
        import jsonschema
        jsonschema.validate(m, json.load(open("/root/.vp/MANIFEST.schema.json")))
        print("manifest valid;", len(m["checks"]), "checks,", len(m["not_applicable"]), "not claimed")
    except ImportError:
        print("jsonschema not available; not validated")

if __name__ == "__main__":
    main()
