#!/bin/bash
# Re-runs the demonstration of a seeded defect: scratch worktree of /repo (+ patch unless --without),
# temp copy of the demo with every /tmp/sa-Cxx path pointed at that worktree.
# usage: tools/seeded_demo.sh <id> [--without]
export GOFLAGS=-mod=mod GOPROXY=off GOSUMDB=off GOTOOLCHAIN=local
VERIF=$(cd "$(dirname "$0")/.." && pwd)
id=$1; dir="$VERIF/seeded/$id"
wt=$(mktemp -d /tmp/covr-sdemo-XXXXXX); rmdir "$wt"
git -C /repo worktree add -q --detach "$wt" HEAD || exit 2
[ "$2" = "--without" ] || git -C "$wt" apply "$dir/patch.diff" || { echo "patch does not apply"; git -C /repo worktree remove --force "$wt"; exit 2; }
cp -r "$dir/demo" "$wt/demo"
grep -rlE '/tmp/s[a-z]-C[0-9]+' "$wt/demo" | while read f; do sed -i -E "s#/tmp/s[a-z]-C[0-9]+/demo_[AB]#$wt/demo#g; s#/tmp/s[a-z]-C[0-9]+#$wt#g" "$f"; done
cmd=$(python3 -c "import json;print(json.load(open('$dir/meta.json')).get('demo_cmd','go run .'))")
(cd "$wt/demo" && timeout 1200 bash -c "$cmd"); code=$?
echo "seeded demo $id $2: exit=$code"
git -C /repo worktree remove --force "$wt"
exit $code
