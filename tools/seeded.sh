#!/bin/bash
# Runs checks against a seeded defect: applies /verif/seeded/<id>/patch.diff to /repo,
# runs the given checks (default: the property in meta.json), and undoes the change.
# usage: tools/seeded.sh <id> [Cxx ...]        (exit 0 = at least one check raised a VIOLATION)
export GOFLAGS=-mod=mod GOPROXY=off GOSUMDB=off GOTOOLCHAIN=local
VERIF=$(cd "$(dirname "$0")/.." && pwd)
id=$1; shift
dir="$VERIF/seeded/$id"
[ -f "$dir/patch.diff" ] || { echo "no such seeded defect: $id"; exit 2; }
if [ -n "$(git -C /repo status --porcelain)" ]; then echo "/repo is not clean"; exit 2; fi
checks="$*"
[ -z "$checks" ] && checks=$(python3 -c "import json;print(json.load(open('$dir/meta.json'))['property'])")
if grep -q '"status": "superseded' "$dir/meta.json"; then echo "SEEDED $id: SUPERSEDED (see meta.json)"; exit 0; fi
git -C /repo apply "$dir/patch.diff" || { echo "SEEDED $id: patch does not apply"; exit 2; }
caught=1
for c in $checks; do
  out=$(COVERIF_NOEVIDENCE=1 "${COVR_BIN:-$VERIF/bin/covr}" "$c" --tier "${TIER:-quick}" 2>&1); code=$?
  nv=$(echo "$out" | grep -c '^VIOLATION')
  echo "SEEDED $id: check=$c exit=$code violations=$nv :: $(echo "$out" | grep -m1 'sig=' | cut -c1-160)"
  [ $code = 1 ] && [ $nv -gt 0 ] && caught=0
  [ $code = 2 ] && echo "$out" | tail -5
done
git -C /repo checkout -q -- .
git -C /repo clean -fdq
exit $caught
