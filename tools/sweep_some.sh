#!/bin/bash
# Like tools/sweep.sh for a list of checks: tools/sweep_some.sh <tier> <seed> <Cxx>...
export GOFLAGS=-mod=mod GOPROXY=off GOSUMDB=off GOTOOLCHAIN=local
cd "$(dirname "$0")/.."
(cd harness && go build -o ../bin/covr ./cmd/covr) || exit 2
tier=$1; seed=$2; shift 2
bad=0
for p in "$@"; do
  out=$(COVERIF_NOEVIDENCE=1 VERIF_SEED=$seed ./bin/covr $p --tier $tier 2>&1); code=$?
  echo "SWEEP seed=$seed $p exit=$code :: $(echo "$out" | grep "^$p " | tail -1)"
  if [ $code != 0 ]; then bad=1; echo "$out" | grep -v '^KNOWN' | head -40; fi
done
exit $bad
