#!/bin/bash
# Rebases a seeded patch written against an older commit of /repo onto the current HEAD (3-way, via cherry-pick in
# scratch worktrees). usage: tools/rebase_seeded.sh <old-commit> <patch-file> <out-patch>    exit 0 = rebased cleanly
old=$1; patch=$2; out=$3
a=$(mktemp -d /tmp/covr-rb-XXXXXX); rmdir $a; b=$(mktemp -d /tmp/covr-rb-XXXXXX); rmdir $b
git -C /repo worktree add -q --detach $a $old || exit 2
git -C /repo worktree add -q --detach $b HEAD || exit 2
trap 'git -C /repo worktree remove --force $a >/dev/null 2>&1; git -C /repo worktree remove --force $b >/dev/null 2>&1' EXIT
git -C $a apply $patch || { echo "does not apply to $old"; exit 1; }
git -C $a add -A && git -C $a commit -qm seeded || exit 1
c=$(git -C $a rev-parse HEAD)
if git -C $b cherry-pick $c >/dev/null 2>&1; then
  git -C $b diff HEAD~1 HEAD > $out; echo "rebased: $out"; exit 0
fi
echo "CONFLICT:"; git -C $b diff --name-only --diff-filter=U; git -C $b diff | head -60; exit 1
