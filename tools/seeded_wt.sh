#!/bin/bash
# Like tools/seeded.sh, but applies the seeded change to a scratch WORKTREE of /repo (removed afterwards) and points
# the checks at it with COVERIF_REPO, so /repo is never touched and several seeded changes can be run in parallel.
# usage: tools/seeded_wt.sh <id> [Cxx ...]        (exit 0 = at least one check raised a VIOLATION)
export GOFLAGS=-mod=mod GOPROXY=off GOSUMDB=off GOTOOLCHAIN=local
VERIF=$(cd "$(dirname "$0")/.." && pwd)
id=$1; shift
dir="$VERIF/seeded/$id"
[ -f "$dir/patch.diff" ] || { echo "no such seeded defect: $id"; exit 2; }
checks="$*"
[ -z "$checks" ] && checks=$(python3 -c "import json;print(json.load(open('$dir/meta.json'))['property'])")
if grep -q '"status": "superseded' "$dir/meta.json"; then echo "SEEDED $id: SUPERSEDED (see meta.json)"; exit 0; fi
wt=$(mktemp -d /tmp/covr-seeded-XXXXXX); rmdir "$wt"
git -C /repo worktree add -q --detach "$wt" HEAD || { echo "worktree failed"; exit 2; }
trap 'git -C /repo worktree remove --force "$wt" >/dev/null 2>&1' EXIT
git -C "$wt" apply "$dir/patch.diff" || { echo "SEEDED $id: patch does not apply"; exit 2; }
caught=1
for c in $checks; do
  out=$(COVERIF_REPO="$wt" COVERIF_NOEVIDENCE=1 "${COVR_BIN:-$VERIF/bin/covr}" "$c" --tier "${TIER:-quick}" 2>&1); code=$?
  nv=$(echo "$out" | grep -c '^VIOLATION')
  echo "SEEDED $id: check=$c exit=$code violations=$nv :: $(echo "$out" | grep -m1 'sig=' | cut -c1-160)"
  [ $code = 1 ] && [ $nv -gt 0 ] && caught=0
  [ $code = 2 ] && echo "$out" | tail -5
done
exit $caught
